//! "User code" library: the custom sanitizers / predicates / validators / error types / inner
//! types that generated declarations refer to (`with = ulib::...`). The reference model calls
//! the very same functions (they are the *user's* contract, not nutype's), so the meaning of a
//! custom function never has to be re-implemented.

use std::fmt;

// ---------------------------------------------------------------------------------------------
// integers

pub trait IntLike: Copy + PartialOrd + fmt::Display + fmt::Debug {
    fn w_add1(self) -> Self;
    fn clamp_10_100(self) -> Self;
    fn to_even(self) -> Self;
    fn is_even(self) -> bool;
    fn is_13(self) -> bool;
    fn lt0(self) -> bool;
    fn gt50(self) -> bool;
    fn div100_le50(self) -> bool;
}

macro_rules! impl_intlike {
    ($($t:ty),*) => {$(
        impl IntLike for $t {
            #[inline] fn w_add1(self) -> Self { self.wrapping_add(1) }
            #[inline] fn clamp_10_100(self) -> Self { if self < 10 { 10 } else if self > 100 { 100 } else { self } }
            #[inline] fn to_even(self) -> Self { self & !1 }
            #[inline] fn is_even(self) -> bool { self & 1 == 0 }
            #[inline] fn is_13(self) -> bool { self == 13 }
            #[allow(unused_comparisons)]
            #[inline] fn lt0(self) -> bool { self < 0 }
            #[inline] fn gt50(self) -> bool { self > 50 }
            #[inline] fn div100_le50(self) -> bool { 100 / self <= 50 }
        }
    )*};
}
impl_intlike!(u8, i8, u16, i16, u32, i32, u64, i64, u128, i128, usize, isize);

/// idempotent, range-shrinking
#[inline]
pub fn clamp_10_100<T: IntLike>(v: T) -> T {
    v.clamp_10_100()
}
/// NOT idempotent
#[inline]
pub fn wrap_add1<T: IntLike>(v: T) -> T {
    v.w_add1()
}
/// idempotent
#[inline]
pub fn to_even<T: IntLike>(v: T) -> T {
    v.to_even()
}
#[inline]
pub fn is_even<T: IntLike>(v: &T) -> bool {
    v.is_even()
}
#[inline]
pub fn not_13<T: IntLike>(v: &T) -> bool {
    !v.is_13()
}

/// PARTIAL: divides by the value, so it panics at 0 – a predicate a user writes *after* a rule that
/// excludes 0 (`greater = 0`), relying on validators being evaluated in the order written and stopping
/// at the first violated one
#[inline]
pub fn inv_small<T: IntLike>(v: &T) -> bool {
    v.div100_le50()
}

#[derive(Debug, Clone, PartialEq, Eq)]
pub enum NumErr {
    Negative(String),
    TooBig(String),
    NotANumber,
}
impl fmt::Display for NumErr {
    fn fmt(&self, f: &mut fmt::Formatter<'_>) -> fmt::Result {
        match self {
            NumErr::Negative(s) => write!(f, "custom: negative {s}"),
            NumErr::TooBig(s) => write!(f, "custom: too big {s}"),
            NumErr::NotANumber => write!(f, "custom: nan"),
        }
    }
}
impl std::error::Error for NumErr {}

/// custom `with` validator for integers: 0..=50 accepted, payload carries the value.
pub fn check_int<T: IntLike>(v: &T) -> Result<(), NumErr> {
    if v.lt0() {
        Err(NumErr::Negative(format!("{v}")))
    } else if v.gt50() {
        Err(NumErr::TooBig(format!("{v}")))
    } else {
        Ok(())
    }
}

// const fn variants (for const_fn declarations)
pub const fn c_clamp_i32(v: i32) -> i32 {
    if v < 10 {
        10
    } else if v > 100 {
        100
    } else {
        v
    }
}
pub const fn c_clamp_u8(v: u8) -> u8 {
    if v < 10 {
        10
    } else if v > 100 {
        100
    } else {
        v
    }
}
pub const fn c_is_even_i32(v: &i32) -> bool {
    *v & 1 == 0
}
pub const fn c_is_even_u8(v: &u8) -> bool {
    *v & 1 == 0
}

// ---------------------------------------------------------------------------------------------
// floats

pub trait FloatLike: Copy + PartialOrd + fmt::Display + fmt::Debug {
    fn clamp01(self) -> Self;
    fn fabs(self) -> Self;
    fn nan0(self) -> Self;
    fn integral(self) -> bool;
    fn isnan(self) -> bool;
    fn lt0(self) -> bool;
    fn gt50(self) -> bool;
    fn recip1(self) -> Self;
}
macro_rules! impl_floatlike {
    ($($t:ty),*) => {$(
        impl FloatLike for $t {
            #[inline] fn clamp01(self) -> Self { if self < 0.0 { 0.0 } else if self > 1.0 { 1.0 } else { self } }
            #[inline] fn fabs(self) -> Self { self.abs() }
            #[inline] fn nan0(self) -> Self { if self.is_nan() { 0.0 } else { self } }
            #[inline] fn integral(self) -> bool { self.fract() == 0.0 }
            #[inline] fn isnan(self) -> bool { self.is_nan() }
            #[inline] fn lt0(self) -> bool { self < 0.0 }
            #[inline] fn gt50(self) -> bool { self > 50.0 }
            #[inline] fn recip1(self) -> Self { 1.0 / self }
        }
    )*};
}
impl_floatlike!(f32, f64);

/// idempotent; NaN stays NaN; -0.0 stays -0.0
#[inline]
pub fn clamp_0_1<T: FloatLike>(v: T) -> T {
    v.clamp01()
}
/// idempotent
#[inline]
pub fn abs_f<T: FloatLike>(v: T) -> T {
    v.fabs()
}
/// idempotent
#[inline]
pub fn nan_to_zero<T: FloatLike>(v: T) -> T {
    v.nan0()
}
#[inline]
pub fn is_integral<T: FloatLike>(v: &T) -> bool {
    v.integral()
}
pub fn check_float<T: FloatLike>(v: &T) -> Result<(), NumErr> {
    if v.isnan() {
        Err(NumErr::NotANumber)
    } else if v.lt0() {
        Err(NumErr::Negative(format!("{v}")))
    } else if v.gt50() {
        Err(NumErr::TooBig(format!("{v}")))
    } else {
        Ok(())
    }
}
/// NOT idempotent; maps the finite value 0.0 to an infinity
#[inline]
pub fn recip<T: FloatLike>(v: T) -> T {
    v.recip1()
}
pub const fn c_clamp01_f64(v: f64) -> f64 {
    if v < 0.0 {
        0.0
    } else if v > 1.0 {
        1.0
    } else {
        v
    }
}

// ---------------------------------------------------------------------------------------------
// strings

/// idempotent: removes every 'x'
pub fn strip_x(s: String) -> String {
    s.chars().filter(|c| *c != 'x').collect()
}
/// idempotent: keeps the first three characters
pub fn truncate3(s: String) -> String {
    s.chars().take(3).collect()
}
/// NOT idempotent
pub fn dup(s: String) -> String {
    format!("{s}{s}")
}
pub fn no_x(s: &str) -> bool {
    !s.contains('x')
}
pub fn has_a(s: &str) -> bool {
    s.contains('a')
}
/// PARTIAL: panics on the empty string – a predicate a user writes *after* `not_empty` (or
/// `len_char_min = 1`), relying on validators being evaluated in the order written and stopping at the
/// first violated one
pub fn first_not_x(s: &str) -> bool {
    s.chars().next().expect("first_not_x: an earlier validator excludes the empty string") != 'x'
}

#[derive(Debug, Clone, PartialEq, Eq)]
pub enum StrErr {
    Blank,
    HasX(String),
}
impl fmt::Display for StrErr {
    fn fmt(&self, f: &mut fmt::Formatter<'_>) -> fmt::Result {
        match self {
            StrErr::Blank => write!(f, "custom: blank"),
            StrErr::HasX(s) => write!(f, "custom: has x in {s:?}"),
        }
    }
}
impl std::error::Error for StrErr {}

pub fn check_str(s: &str) -> Result<(), StrErr> {
    if s.is_empty() {
        Err(StrErr::Blank)
    } else if s.contains('x') {
        Err(StrErr::HasX(s.to_string()))
    } else {
        Ok(())
    }
}

pub static RE_DIGITS: std::sync::LazyLock<regex::Regex> =
    std::sync::LazyLock::new(|| regex::Regex::new("^[0-9]+$").unwrap());
pub const RE_DIGITS_SRC: &str = "^[0-9]+$";
pub const RE_LOWER_SRC: &str = "^[a-z ]*$";
/// NOT anchored: matches when the value merely CONTAINS a digit run
pub const RE_HASDIGIT_SRC: &str = "[0-9]+";
pub static RE_HASDIGIT: std::sync::LazyLock<regex::Regex> = std::sync::LazyLock::new(|| regex::Regex::new(RE_HASDIGIT_SRC).unwrap());
pub static RE_LOWER: std::sync::LazyLock<regex::Regex> =
    std::sync::LazyLock::new(|| regex::Regex::new(RE_LOWER_SRC).unwrap());

// ---------------------------------------------------------------------------------------------
// Vec<i64>

/// idempotent
pub fn sort_dedup<T: Ord>(mut v: Vec<T>) -> Vec<T> {
    v.sort();
    v.dedup();
    v
}
pub fn vec_nonempty<T>(v: &Vec<T>) -> bool {
    !v.is_empty()
}
pub fn vec_short<T>(v: &Vec<T>) -> bool {
    v.len() <= 2
}

#[derive(Debug, Clone, PartialEq, Eq)]
pub enum VecErr {
    Empty,
    TooLong(usize),
}
impl fmt::Display for VecErr {
    fn fmt(&self, f: &mut fmt::Formatter<'_>) -> fmt::Result {
        match self {
            VecErr::Empty => write!(f, "custom: empty"),
            VecErr::TooLong(n) => write!(f, "custom: too long {n}"),
        }
    }
}
impl std::error::Error for VecErr {}
pub fn check_vec<T>(v: &Vec<T>) -> Result<(), VecErr> {
    if v.is_empty() {
        Err(VecErr::Empty)
    } else if v.len() > 2 {
        Err(VecErr::TooLong(v.len()))
    } else {
        Ok(())
    }
}

// ---------------------------------------------------------------------------------------------
// a user struct as inner type

#[derive(
    Debug, Clone, Copy, PartialEq, Eq, PartialOrd, Ord, Hash, Default, serde::Serialize, serde::Deserialize,
)]
pub struct Point {
    pub x: i32,
    pub y: i32,
}
impl fmt::Display for Point {
    fn fmt(&self, f: &mut fmt::Formatter<'_>) -> fmt::Result {
        write!(f, "{},{}", self.x, self.y)
    }
}
#[derive(Debug, Clone, PartialEq, Eq)]
pub struct PointParseError(pub String);
impl std::str::FromStr for Point {
    type Err = PointParseError;
    fn from_str(s: &str) -> Result<Self, Self::Err> {
        let (a, b) = s.split_once(',').ok_or_else(|| PointParseError(s.to_string()))?;
        let x = a.parse::<i32>().map_err(|_| PointParseError(s.to_string()))?;
        let y = b.parse::<i32>().map_err(|_| PointParseError(s.to_string()))?;
        Ok(Point { x, y })
    }
}
impl<'a> arbitrary::Arbitrary<'a> for Point {
    fn arbitrary(u: &mut arbitrary::Unstructured<'a>) -> arbitrary::Result<Self> {
        Ok(Point { x: u.arbitrary()?, y: u.arbitrary()? })
    }
}
/// idempotent: reflect into the upper half plane
pub fn point_abs_y(p: Point) -> Point {
    Point { x: p.x, y: p.y.wrapping_abs().max(0) }
}
pub fn point_on_diag(p: &Point) -> bool {
    p.x == p.y
}
pub const fn c_point_on_diag(p: &Point) -> bool {
    p.x == p.y
}

// ---------------------------------------------------------------------------------------------
// a user type whose equality is NOT reflexive (wraps a float): shortcuts such as "same address => equal"
// are wrong for it

#[derive(Debug, Clone, Copy, PartialEq, PartialOrd, Default)]
pub struct FBox(pub f32);
/// ... and whose `Ord` (IEEE total order: -0.0 < +0.0, NaN ordered) deliberately differs from its derived
/// `PartialOrd` / `PartialEq` (a "sortable float" wrapper): a newtype must forward `cmp` to `Ord` and
/// `partial_cmp` / the operators to `PartialOrd`, never one to the other
impl Eq for FBox {}
#[allow(clippy::derive_ord_xor_partial_ord)]
impl Ord for FBox {
    fn cmp(&self, other: &Self) -> std::cmp::Ordering {
        self.0.total_cmp(&other.0)
    }
}
pub fn fbox_abs(b: FBox) -> FBox {
    FBox(b.0.abs())
}
pub fn fbox_small(b: &FBox) -> bool {
    !(b.0 > 1000.0)
}

/// idempotent; maps the empty string to a non-empty one (an empty input is NOT a fixed point)
pub fn or_anon(s: String) -> String {
    if s.is_empty() {
        "anon".to_string()
    } else {
        s
    }
}
