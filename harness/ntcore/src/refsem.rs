//! REF: the reference semantics of a declaration. Boring by intent: fold the sanitizers in written
//! order, scan the validators in written order, first violated rule wins.

use crate::model::*;
use std::cmp::Ordering;

#[derive(Clone, Debug, PartialEq, Eq, Hash)]
pub enum Viol {
    /// index into the validator list + variant name
    Std(usize, &'static str),
    /// custom validator: Display text of the user error
    Custom(String),
}

impl Viol {
    pub fn variant(&self) -> &str {
        match self {
            Viol::Std(_, v) => v,
            Viol::Custom(_) => "Custom",
        }
    }
}

macro_rules! int_dispatch {
    ($ty:expr, $v:expr, |$x:ident| $body:expr) => {{
        match ($ty, $v) {
            (IntTy::U8, Val::U(a)) => { let $x = *a as u8; Val::U(($body) as u128) }
            (IntTy::U16, Val::U(a)) => { let $x = *a as u16; Val::U(($body) as u128) }
            (IntTy::U32, Val::U(a)) => { let $x = *a as u32; Val::U(($body) as u128) }
            (IntTy::U64, Val::U(a)) => { let $x = *a as u64; Val::U(($body) as u128) }
            (IntTy::Usize, Val::U(a)) => { let $x = *a as usize; Val::U(($body) as u128) }
            (IntTy::U128, Val::U(a)) => { let $x = *a; Val::U($body) }
            (IntTy::I8, Val::I(a)) => { let $x = *a as i8; Val::I(($body) as i128) }
            (IntTy::I16, Val::I(a)) => { let $x = *a as i16; Val::I(($body) as i128) }
            (IntTy::I32, Val::I(a)) => { let $x = *a as i32; Val::I(($body) as i128) }
            (IntTy::I64, Val::I(a)) => { let $x = *a as i64; Val::I(($body) as i128) }
            (IntTy::Isize, Val::I(a)) => { let $x = *a as isize; Val::I(($body) as i128) }
            (IntTy::I128, Val::I(a)) => { let $x = *a; Val::I($body) }
            (t, v) => panic!("int value/type mismatch {t:?} {v:?}"),
        }
    }};
}

macro_rules! int_pred {
    ($ty:expr, $v:expr, |$x:ident| $body:expr) => {{
        match ($ty, $v) {
            (IntTy::U8, Val::U(a)) => { let $x = *a as u8; $body }
            (IntTy::U16, Val::U(a)) => { let $x = *a as u16; $body }
            (IntTy::U32, Val::U(a)) => { let $x = *a as u32; $body }
            (IntTy::U64, Val::U(a)) => { let $x = *a as u64; $body }
            (IntTy::Usize, Val::U(a)) => { let $x = *a as usize; $body }
            (IntTy::U128, Val::U(a)) => { let $x = *a; $body }
            (IntTy::I8, Val::I(a)) => { let $x = *a as i8; $body }
            (IntTy::I16, Val::I(a)) => { let $x = *a as i16; $body }
            (IntTy::I32, Val::I(a)) => { let $x = *a as i32; $body }
            (IntTy::I64, Val::I(a)) => { let $x = *a as i64; $body }
            (IntTy::Isize, Val::I(a)) => { let $x = *a as isize; $body }
            (IntTy::I128, Val::I(a)) => { let $x = *a; $body }
            (t, v) => panic!("int value/type mismatch {t:?} {v:?}"),
        }
    }};
}

/// Apply a user sanitizer (calls the user's own function from `ulib`).
pub fn apply_ufn_san(inner: Inner, f: UFn, v: &Val) -> Val {
    match (inner, f) {
        (Inner::Int(t), UFn::Clamp10_100) | (Inner::Int(t), UFn::CClamp) => int_dispatch!(t, v, |x| ulib::clamp_10_100(x)),
        (Inner::Int(t), UFn::WrapAdd1) => int_dispatch!(t, v, |x| ulib::wrap_add1(x)),
        (Inner::Int(t), UFn::ToEven) => int_dispatch!(t, v, |x| ulib::to_even(x)),
        (Inner::F32, UFn::Clamp01) => Val::f32(ulib::clamp_0_1(v.as_f32())),
        (Inner::F64, UFn::Clamp01) | (Inner::F64, UFn::CClamp01) => Val::f64(ulib::clamp_0_1(v.as_f64())),
        (Inner::F32, UFn::AbsF) => Val::f32(ulib::abs_f(v.as_f32())),
        (Inner::F64, UFn::AbsF) => Val::f64(ulib::abs_f(v.as_f64())),
        (Inner::F32, UFn::Recip) => Val::f32(ulib::recip(v.as_f32())),
        (Inner::F64, UFn::Recip) => Val::f64(ulib::recip(v.as_f64())),
        (Inner::F32, UFn::NanToZero) => Val::f32(ulib::nan_to_zero(v.as_f32())),
        (Inner::F64, UFn::NanToZero) => Val::f64(ulib::nan_to_zero(v.as_f64())),
        (Inner::Str, UFn::StripX) | (Inner::Cow, UFn::StripX) => Val::S(ulib::strip_x(v.as_str().to_string())),
        (Inner::Str, UFn::Truncate3) => Val::S(ulib::truncate3(v.as_str().to_string())),
        (Inner::Str, UFn::Dup) => Val::S(ulib::dup(v.as_str().to_string())),
        (Inner::VecI64, UFn::SortDedup) | (Inner::GenVec, UFn::SortDedup) => match v {
            Val::V(x) => Val::V(ulib::sort_dedup(x.clone())),
            _ => panic!(),
        },
        (Inner::FBox, UFn::FBoxAbs) => Val::f32(ulib::fbox_abs(ulib::FBox(v.as_f32())).0),
        (Inner::Str, UFn::OrAnon) => Val::S(ulib::or_anon(v.as_str().to_string())),
        (Inner::Point, UFn::PointAbsY) => match v {
            Val::P(x, y) => {
                let p = ulib::point_abs_y(ulib::Point { x: *x, y: *y });
                Val::P(p.x, p.y)
            }
            _ => panic!(),
        },
        _ => panic!("sanitizer {f:?} not applicable to {inner:?}"),
    }
}

pub fn apply_ufn_pred(inner: Inner, f: UFn, v: &Val) -> bool {
    match (inner, f) {
        (Inner::Int(t), UFn::IsEven) | (Inner::Int(t), UFn::CIsEven) => int_pred!(t, v, |x| ulib::is_even(&x)),
        (Inner::Int(t), UFn::Not13) => int_pred!(t, v, |x| ulib::not_13(&x)),
        // partial predicates: outside their domain the real function panics. The reference extends them
        // with `true` there; the grammar guarantees an earlier validator is violated by every such value,
        // so the extension is never the *first* violation and cannot be observed through `construct`.
        (Inner::Int(_), UFn::InvSmall) if matches!(v, Val::I(0) | Val::U(0)) => true,
        (Inner::Int(t), UFn::InvSmall) => int_pred!(t, v, |x| ulib::inv_small(&x)),
        (Inner::Str, UFn::FirstNotX) | (Inner::Cow, UFn::FirstNotX) if v.as_str().is_empty() => true,
        (Inner::Str, UFn::FirstNotX) | (Inner::Cow, UFn::FirstNotX) => ulib::first_not_x(v.as_str()),
        (Inner::F32, UFn::IsIntegral) => ulib::is_integral(&v.as_f32()),
        (Inner::F64, UFn::IsIntegral) => ulib::is_integral(&v.as_f64()),
        (Inner::Str, UFn::NoX) | (Inner::Cow, UFn::NoX) => ulib::no_x(v.as_str()),
        (Inner::Str, UFn::HasA) | (Inner::Cow, UFn::HasA) => ulib::has_a(v.as_str()),
        (Inner::VecI64, UFn::VecNonEmpty) | (Inner::GenVec, UFn::VecNonEmpty) => match v {
            Val::V(x) => ulib::vec_nonempty(x),
            _ => panic!(),
        },
        (Inner::VecI64, UFn::VecShort) | (Inner::GenVec, UFn::VecShort) => match v {
            Val::V(x) => ulib::vec_short(x),
            _ => panic!(),
        },
        (Inner::FBox, UFn::FBoxSmall) => ulib::fbox_small(&ulib::FBox(v.as_f32())),
        (Inner::Point, UFn::PointOnDiag) | (Inner::Point, UFn::CPointOnDiag) => match v {
            Val::P(x, y) => ulib::point_on_diag(&ulib::Point { x: *x, y: *y }),
            _ => panic!(),
        },
        _ => panic!("predicate {f:?} not applicable to {inner:?}"),
    }
}

/// custom validator: Ok or the Display text of the user's error value
pub fn apply_ufn_check(inner: Inner, f: UFn, v: &Val) -> Result<(), String> {
    match (inner, f) {
        (Inner::Int(t), UFn::CheckInt) => int_pred!(t, v, |x| ulib::check_int(&x).map_err(|e| e.to_string())),
        (Inner::F32, UFn::CheckFloat) => ulib::check_float(&v.as_f32()).map_err(|e| e.to_string()),
        (Inner::F64, UFn::CheckFloat) => ulib::check_float(&v.as_f64()).map_err(|e| e.to_string()),
        (Inner::Str, UFn::CheckStr) | (Inner::Cow, UFn::CheckStr) => ulib::check_str(v.as_str()).map_err(|e| e.to_string()),
        (Inner::VecI64, UFn::CheckVec) | (Inner::GenVec, UFn::CheckVec) => match v {
            Val::V(x) => ulib::check_vec(x).map_err(|e| e.to_string()),
            _ => panic!(),
        },
        _ => panic!("custom validator {f:?} not applicable to {inner:?}"),
    }
}

/// `trim` as "drop leading and trailing White_Space scalar values", written by scanning rather
/// than by calling `str::trim`.
pub fn ref_trim(s: &str) -> String {
    let chars: Vec<char> = s.chars().collect();
    let mut a = 0usize;
    let mut b = chars.len();
    while a < b && chars[a].is_whitespace() {
        a += 1;
    }
    while b > a && chars[b - 1].is_whitespace() {
        b -= 1;
    }
    chars[a..b].iter().collect()
}

pub fn sanitize(d: &Decl, raw: &Val) -> Val {
    let mut v = raw.clone();
    for s in &d.sans {
        v = match s {
            San::Trim => Val::S(ref_trim(v.as_str())),
            // Unicode case tables are std's on both sides (cannot be re-derived offline); what
            // REF keeps independent is order, composition and which value is stored.
            San::Lower => Val::S(v.as_str().to_lowercase()),
            San::Upper => Val::S(v.as_str().to_uppercase()),
            San::With(f, _) => apply_ufn_san(d.inner, *f, &v),
        };
    }
    v
}

pub fn char_count(s: &str) -> u128 {
    let mut n = 0u128;
    for _ in s.chars() {
        n += 1;
    }
    n
}

fn re_for(r: Re) -> &'static regex::Regex {
    match r {
        Re::Digits => &ulib::RE_DIGITS,
        Re::Lower => &ulib::RE_LOWER,
        Re::HasDigit => &ulib::RE_HASDIGIT,
    }
}

/// Is validator `vd` violated by the (already sanitized) value?
/// A bound validator is violated iff the value compares on the forbidden side under the inner
/// type's own comparison; consequently NaN violates only `finite` (DESIGN 6.1).
pub fn violated(inner: Inner, vd: &Vd, v: &Val) -> bool {
    match vd {
        Vd::Greater(b) => matches!(pcmp(v, &b.v), Some(Ordering::Less) | Some(Ordering::Equal)),
        Vd::GreaterOrEqual(b) => matches!(pcmp(v, &b.v), Some(Ordering::Less)),
        Vd::Less(b) => matches!(pcmp(v, &b.v), Some(Ordering::Greater) | Some(Ordering::Equal)),
        Vd::LessOrEqual(b) => matches!(pcmp(v, &b.v), Some(Ordering::Greater)),
        Vd::Finite => !v.is_finite_float(),
        Vd::Predicate(f, _) => !apply_ufn_pred(inner, *f, v),
        Vd::NotEmpty => v.as_str().is_empty(),
        Vd::LenCharMin(b) => {
            let Val::U(n) = b.v else { panic!() };
            char_count(v.as_str()) < n
        }
        Vd::LenCharMax(b) => {
            let Val::U(n) = b.v else { panic!() };
            char_count(v.as_str()) > n
        }
        Vd::Regex(r, _) => !re_for(*r).is_match(v.as_str()),
    }
}

pub fn first_violation(d: &Decl, v: &Val) -> Option<Viol> {
    match &d.validation {
        Validation::None => None,
        Validation::Std(vs) => {
            for (i, vd) in vs.iter().enumerate() {
                if violated(d.inner, vd, v) {
                    return Some(Viol::Std(i, vd.variant()));
                }
            }
            None
        }
        Validation::Custom(f, _) => apply_ufn_check(d.inner, *f, v).err().map(Viol::Custom),
    }
}

/// number of validators violated at once (non-vacuity measure for C07)
pub fn violation_count(d: &Decl, v: &Val) -> usize {
    d.std_validators().iter().filter(|vd| violated(d.inner, vd, v)).count()
}

/// the constructor: sanitize, validate, wrap
pub fn construct(d: &Decl, raw: &Val) -> Result<Val, Viol> {
    let s = sanitize(d, raw);
    match first_violation(d, &s) {
        None => Ok(s),
        Some(v) => Err(v),
    }
}

/// is the value accepted as-is and canonical (sanitisation leaves it unchanged)?
pub fn valid_and_canonical(d: &Decl, v: &Val) -> bool {
    construct(d, v).as_ref() == Ok(v)
}
