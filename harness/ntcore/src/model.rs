//! Declaration AST shared by the generator (which writes `#[nutype(..)]` source text from it) and
//! the reference model (which interprets it). The denoted meaning of every generated declaration is
//! therefore known by construction.

#[derive(Clone, Copy, Debug, PartialEq, Eq, Hash, PartialOrd, Ord)]
pub enum IntTy {
    U8,
    I8,
    U16,
    I16,
    U32,
    I32,
    U64,
    I64,
    U128,
    I128,
    Usize,
    Isize,
}

pub const ALL_INT: [IntTy; 12] = [
    IntTy::U8,
    IntTy::I8,
    IntTy::U16,
    IntTy::I16,
    IntTy::U32,
    IntTy::I32,
    IntTy::U64,
    IntTy::I64,
    IntTy::U128,
    IntTy::I128,
    IntTy::Usize,
    IntTy::Isize,
];

impl IntTy {
    pub fn name(self) -> &'static str {
        match self {
            IntTy::U8 => "u8",
            IntTy::I8 => "i8",
            IntTy::U16 => "u16",
            IntTy::I16 => "i16",
            IntTy::U32 => "u32",
            IntTy::I32 => "i32",
            IntTy::U64 => "u64",
            IntTy::I64 => "i64",
            IntTy::U128 => "u128",
            IntTy::I128 => "i128",
            IntTy::Usize => "usize",
            IntTy::Isize => "isize",
        }
    }
    pub fn signed(self) -> bool {
        matches!(self, IntTy::I8 | IntTy::I16 | IntTy::I32 | IntTy::I64 | IntTy::I128 | IntTy::Isize)
    }
    pub fn bits(self) -> u32 {
        match self {
            IntTy::U8 | IntTy::I8 => 8,
            IntTy::U16 | IntTy::I16 => 16,
            IntTy::U32 | IntTy::I32 => 32,
            IntTy::U64 | IntTy::I64 | IntTy::Usize | IntTy::Isize => 64,
            IntTy::U128 | IntTy::I128 => 128,
        }
    }
    pub fn min(self) -> Val {
        if self.signed() {
            if self.bits() == 128 {
                Val::I(i128::MIN)
            } else {
                Val::I(-(1i128 << (self.bits() - 1)))
            }
        } else {
            Val::U(0)
        }
    }
    pub fn max(self) -> Val {
        if self.signed() {
            if self.bits() == 128 {
                Val::I(i128::MAX)
            } else {
                Val::I((1i128 << (self.bits() - 1)) - 1)
            }
        } else if self.bits() == 128 {
            Val::U(u128::MAX)
        } else {
            Val::U((1u128 << self.bits()) - 1)
        }
    }
    /// build a Val of this type from an i128 if it fits
    pub fn val(self, x: i128) -> Option<Val> {
        if self.signed() {
            let (Val::I(lo), Val::I(hi)) = (self.min(), self.max()) else { unreachable!() };
            if x >= lo && x <= hi {
                Some(Val::I(x))
            } else {
                None
            }
        } else {
            let Val::U(hi) = self.max() else { unreachable!() };
            if x >= 0 && (x as u128) <= hi {
                Some(Val::U(x as u128))
            } else {
                None
            }
        }
    }
}

#[derive(Clone, Copy, Debug, PartialEq, Eq, Hash, PartialOrd, Ord)]
pub enum Inner {
    Int(IntTy),
    F32,
    F64,
    Str,
    /// `struct N(Vec<i64>)`
    VecI64,
    /// `struct N(ulib::Point)`
    Point,
    /// `struct N<T: Ord>(Vec<T>)`, exercised at T = i64
    GenVec,
    /// `struct N<'a>(Cow<'a, str>)`, exercised at 'static
    Cow,
    /// `struct N(ulib::FBox)`: a user type with non-reflexive equality (wraps an f32; values are `Val::F32`)
    FBox,
    /// `struct N<T>(T)` – a bare type parameter as inner type, exercised at T = i32 (values are `Val::I`)
    GenT,
}

#[derive(Clone, Copy, Debug, PartialEq, Eq, Hash)]
pub enum Family {
    Int,
    Float,
    Str,
    Any,
}

impl Inner {
    pub fn family(self) -> Family {
        match self {
            Inner::Int(_) => Family::Int,
            Inner::F32 | Inner::F64 => Family::Float,
            Inner::Str => Family::Str,
            _ => Family::Any,
        }
    }
    /// the type as written inside the tuple struct
    pub fn ty_src(self) -> &'static str {
        match self {
            Inner::Int(t) => t.name(),
            Inner::F32 => "f32",
            Inner::F64 => "f64",
            Inner::Str => "String",
            Inner::VecI64 => "Vec<i64>",
            Inner::Point => "Point",
            Inner::FBox => "FBox",
            Inner::GenT => "T",
            Inner::GenVec => "Vec<T>",
            Inner::Cow => "Cow<'a, str>",
        }
    }
    /// the concrete inner type the harness instantiates
    pub fn ty_concrete(self) -> &'static str {
        match self {
            Inner::GenVec => "Vec<i64>",
            Inner::Cow => "Cow<'static, str>",
            Inner::GenT => "i32",
            x => x.ty_src(),
        }
    }
    pub fn generics_decl(self) -> &'static str {
        match self {
            Inner::GenVec => "<T: Ord>",
            Inner::Cow => "<'a>",
            Inner::GenT => "<T>",
            _ => "",
        }
    }
    pub fn generics_use(self) -> &'static str {
        match self {
            Inner::GenVec => "<i64>",
            Inner::Cow => "<'static>",
            Inner::GenT => "<i32>",
            _ => "",
        }
    }
    pub fn is_generic(self) -> bool {
        matches!(self, Inner::GenVec | Inner::Cow | Inner::GenT)
    }
    /// the integer type whose serde / hash / display behaviour the (concrete) inner type has
    pub fn int_ty(self) -> Option<IntTy> {
        match self {
            Inner::Int(t) => Some(t),
            Inner::GenT => Some(IntTy::I32),
            _ => None,
        }
    }
}

/// A value of some inner type. Floats are kept as bit patterns so that -0.0, NaN payloads etc. are
/// compared exactly.
#[derive(Clone, Debug, PartialEq, Eq, Hash, PartialOrd, Ord)]
pub enum Val {
    I(i128),
    U(u128),
    F32(u32),
    F64(u64),
    S(String),
    V(Vec<i64>),
    P(i32, i32),
}

impl Val {
    pub fn f32(x: f32) -> Val {
        Val::F32(x.to_bits())
    }
    pub fn f64(x: f64) -> Val {
        Val::F64(x.to_bits())
    }
    pub fn s(x: &str) -> Val {
        Val::S(x.to_string())
    }
    pub fn as_f32(&self) -> f32 {
        match self {
            Val::F32(b) => f32::from_bits(*b),
            _ => panic!("not f32: {self:?}"),
        }
    }
    pub fn as_f64(&self) -> f64 {
        match self {
            Val::F64(b) => f64::from_bits(*b),
            _ => panic!("not f64: {self:?}"),
        }
    }
    pub fn as_str(&self) -> &str {
        match self {
            Val::S(s) => s,
            _ => panic!("not str: {self:?}"),
        }
    }
    pub fn is_nan(&self) -> bool {
        match self {
            Val::F32(b) => f32::from_bits(*b).is_nan(),
            Val::F64(b) => f64::from_bits(*b).is_nan(),
            _ => false,
        }
    }
    pub fn is_finite_float(&self) -> bool {
        match self {
            Val::F32(b) => f32::from_bits(*b).is_finite(),
            Val::F64(b) => f64::from_bits(*b).is_finite(),
            _ => true,
        }
    }
    /// Human readable, lossless, used in evidence / replay files.
    pub fn show(&self) -> String {
        match self {
            Val::I(x) => format!("{x}"),
            Val::U(x) => format!("{x}"),
            Val::F32(b) => format!("f32:0x{b:08x}({:?})", f32::from_bits(*b)),
            Val::F64(b) => format!("f64:0x{b:016x}({:?})", f64::from_bits(*b)),
            Val::S(s) => format!("{s:?}"),
            Val::V(v) => format!("{v:?}"),
            Val::P(x, y) => format!("Point({x},{y})"),
        }
    }
}

/// `partial_cmp` of the inner type (what `<`, `>=` … mean in generated code).
pub fn pcmp(a: &Val, b: &Val) -> Option<std::cmp::Ordering> {
    match (a, b) {
        (Val::I(x), Val::I(y)) => x.partial_cmp(y),
        (Val::U(x), Val::U(y)) => x.partial_cmp(y),
        (Val::F32(x), Val::F32(y)) => f32::from_bits(*x).partial_cmp(&f32::from_bits(*y)),
        (Val::F64(x), Val::F64(y)) => f64::from_bits(*x).partial_cmp(&f64::from_bits(*y)),
        (Val::S(x), Val::S(y)) => x.partial_cmp(y),
        (Val::V(x), Val::V(y)) => x.partial_cmp(y),
        (Val::P(a1, a2), Val::P(b1, b2)) => (a1, a2).partial_cmp(&(b1, b2)),
        _ => panic!("pcmp on mismatched values {a:?} {b:?}"),
    }
}

/// user functions from `ulib`
#[derive(Clone, Copy, Debug, PartialEq, Eq, Hash, PartialOrd, Ord)]
pub enum UFn {
    // integer sanitizers
    Clamp10_100,
    WrapAdd1,
    ToEven,
    CClamp,
    // float sanitizers
    Clamp01,
    AbsF,
    NanToZero,
    CClamp01,
    // string sanitizers
    StripX,
    Truncate3,
    Dup,
    // any sanitizers
    SortDedup,
    PointAbsY,
    FBoxAbs,
    OrAnon,
    /// float: 1/x (NOT idempotent, 0.0 -> inf)
    Recip,
    // predicates
    IsEven,
    CIsEven,
    Not13,
    IsIntegral,
    NoX,
    HasA,
    VecNonEmpty,
    VecShort,
    PointOnDiag,
    CPointOnDiag,
    FBoxSmall,
    /// PARTIAL (panics at 0): only ever generated after a validator that excludes 0
    InvSmall,
    /// PARTIAL (panics on ""): only ever generated after a validator that excludes the empty string
    FirstNotX,
    // custom validators (with = .., error = ..)
    CheckInt,
    CheckFloat,
    CheckStr,
    CheckVec,
}

impl UFn {
    pub fn idempotent(self) -> bool {
        !matches!(self, UFn::WrapAdd1 | UFn::Dup | UFn::Recip)
    }
    /// partial predicates panic outside their domain; the grammar only places them after a validator
    /// that rejects every value outside the domain
    pub fn is_partial(self) -> bool {
        matches!(self, UFn::InvSmall | UFn::FirstNotX)
    }
    pub fn is_const(self) -> bool {
        matches!(self, UFn::CClamp | UFn::CClamp01 | UFn::CIsEven | UFn::CPointOnDiag)
    }
    /// error type path for custom validators
    pub fn error_path(self) -> &'static str {
        match self {
            UFn::CheckInt | UFn::CheckFloat => "NumErr",
            UFn::CheckStr => "StrErr",
            UFn::CheckVec => "VecErr",
            _ => panic!("not a custom validator"),
        }
    }
}

/// how a custom function is written in the attribute
#[derive(Clone, Copy, Debug, PartialEq, Eq, Hash, PartialOrd, Ord)]
pub enum Spell {
    Path,
    Closure,
    ClosureTyped,
    ClosureMut,
    /// a single identifier brought into scope by `use ulib::f;` (the shortest possible path)
    Bare,
    /// a closure with an early `return` (semantically the same function): `return` must leave the closure, not
    /// whatever generated function the closure's body might have been pasted into
    ClosureReturn,
}

#[derive(Clone, Debug, PartialEq, Eq, Hash)]
pub enum San {
    Trim,
    Lower,
    Upper,
    With(UFn, Spell),
}

/// how a bound is spelled in the attribute; the denoted value is `Bound::v` in every case
#[derive(Clone, Copy, Debug, PartialEq, Eq, Hash, PartialOrd, Ord)]
pub enum Form {
    /// plain literal, `-5`, `12.5`
    Lit,
    /// literal with `_` separators
    Under,
    /// integer literal for a float bound (`5` for 5.0)
    IntForFloat,
    /// exponent float literal (`5e0`)
    Exp,
    /// suffixed literal (`5u8`, `5.0f32`) – falls to the expression path
    Suffix,
    /// `K`
    Const,
    /// `-K` with K = -v
    NegConst,
    /// `- K`
    NegSpConst,
    /// `-(K)`
    NegParen,
    /// `(K)`
    Paren,
    /// `K + 1` with K = v - 1
    Plus1,
    /// `1 + K`
    OnePlus,
    /// `K - 1` with K = v + 1
    Minus1,
    /// `K << 1` with K = v / 2 (v even)
    Shl,
    /// `KW as T` with `const KW: i64/f64`
    AsCast,
    /// `T::MIN` / `T::MAX` (only when v is that extreme)
    TyExtreme,
    /// `f()` for a `const fn f() -> T`
    FnCall,
    /// `{ K }`
    Block,
    /// `-K + 1` with K = -(v - 1)
    NegPlus,
    /// `m::K`
    ModPath,
    /// `K * 2` with K = v / 2
    Mul2,
    /// `if true { K } else { K }`
    IfExpr,
    /// `!N` with the literal N = !v (integers only; a negative N is written `!-3`)
    NotLit,
    /// `!K` with K = !v (integers only)
    NotConst,
    /// `-(N)` with the literal N = -v
    NegLitParen,
    /// `-(-N)` with the literal N = v (v >= 0)
    DoubleNeg,
    /// a user constant named `MAX` / `MIN` – names generated code might use itself: macro hygiene, an item
    /// or binding the expansion introduces must not capture the user's identifier
    ShadowMax,
    ShadowMin,
    /// `K >> 1` with K = 2v (integers only): like `Shl`, an operator that binds looser than `+`/`-`
    Shr,
}

#[derive(Clone, Debug, PartialEq, Eq, Hash)]
pub struct Bound {
    pub v: Val,
    pub form: Form,
}

impl Bound {
    pub fn lit(v: Val) -> Bound {
        Bound { v, form: Form::Lit }
    }
    pub fn is_literal_form(&self) -> bool {
        matches!(self.form, Form::Lit | Form::Under | Form::IntForFloat | Form::Exp)
    }
}

#[derive(Clone, Copy, Debug, PartialEq, Eq, Hash, PartialOrd, Ord)]
pub enum Re {
    Digits,
    Lower,
    /// unanchored `[0-9]+`
    HasDigit,
}
#[derive(Clone, Copy, Debug, PartialEq, Eq, Hash, PartialOrd, Ord)]
pub enum ReSpell {
    Lit,
    StaticPath,
}

#[derive(Clone, Debug, PartialEq, Eq, Hash)]
pub enum Vd {
    Greater(Bound),
    GreaterOrEqual(Bound),
    Less(Bound),
    LessOrEqual(Bound),
    Finite,
    Predicate(UFn, Spell),
    NotEmpty,
    LenCharMin(Bound),
    LenCharMax(Bound),
    Regex(Re, ReSpell),
}

impl Vd {
    pub fn variant(&self) -> &'static str {
        match self {
            Vd::Greater(_) => "GreaterViolated",
            Vd::GreaterOrEqual(_) => "GreaterOrEqualViolated",
            Vd::Less(_) => "LessViolated",
            Vd::LessOrEqual(_) => "LessOrEqualViolated",
            Vd::Finite => "FiniteViolated",
            Vd::Predicate(..) => "PredicateViolated",
            Vd::NotEmpty => "NotEmptyViolated",
            Vd::LenCharMin(_) => "LenCharMinViolated",
            Vd::LenCharMax(_) => "LenCharMaxViolated",
            Vd::Regex(..) => "RegexViolated",
        }
    }
    pub fn kind_name(&self) -> &'static str {
        match self {
            Vd::Greater(_) => "greater",
            Vd::GreaterOrEqual(_) => "greater_or_equal",
            Vd::Less(_) => "less",
            Vd::LessOrEqual(_) => "less_or_equal",
            Vd::Finite => "finite",
            Vd::Predicate(..) => "predicate",
            Vd::NotEmpty => "not_empty",
            Vd::LenCharMin(_) => "len_char_min",
            Vd::LenCharMax(_) => "len_char_max",
            Vd::Regex(..) => "regex",
        }
    }
    pub fn bound(&self) -> Option<&Bound> {
        match self {
            Vd::Greater(b) | Vd::GreaterOrEqual(b) | Vd::Less(b) | Vd::LessOrEqual(b) | Vd::LenCharMin(b) | Vd::LenCharMax(b) => Some(b),
            _ => None,
        }
    }
    pub fn bound_mut(&mut self) -> Option<&mut Bound> {
        match self {
            Vd::Greater(b) | Vd::GreaterOrEqual(b) | Vd::Less(b) | Vd::LessOrEqual(b) | Vd::LenCharMin(b) | Vd::LenCharMax(b) => Some(b),
            _ => None,
        }
    }
}

#[derive(Clone, Debug, PartialEq, Eq, Hash)]
pub enum Validation {
    None,
    Std(Vec<Vd>),
    Custom(UFn, Spell),
}

#[derive(Clone, Copy, Debug, PartialEq, Eq, Hash, PartialOrd, Ord)]
pub enum Tr {
    Debug,
    Clone,
    Copy,
    PartialEq,
    Eq,
    PartialOrd,
    Ord,
    FromStr,
    AsRef,
    Deref,
    TryFrom,
    From,
    Into,
    Hash,
    Borrow,
    Display,
    Default,
    IntoIterator,
    Serialize,
    Deserialize,
    JsonSchema,
    Arbitrary,
}

pub const ALL_TRAITS: [Tr; 22] = [
    Tr::Debug,
    Tr::Clone,
    Tr::Copy,
    Tr::PartialEq,
    Tr::Eq,
    Tr::PartialOrd,
    Tr::Ord,
    Tr::FromStr,
    Tr::AsRef,
    Tr::Deref,
    Tr::TryFrom,
    Tr::From,
    Tr::Into,
    Tr::Hash,
    Tr::Borrow,
    Tr::Display,
    Tr::Default,
    Tr::IntoIterator,
    Tr::Serialize,
    Tr::Deserialize,
    Tr::JsonSchema,
    Tr::Arbitrary,
];

impl Tr {
    pub fn name(self) -> &'static str {
        match self {
            Tr::Debug => "Debug",
            Tr::Clone => "Clone",
            Tr::Copy => "Copy",
            Tr::PartialEq => "PartialEq",
            Tr::Eq => "Eq",
            Tr::PartialOrd => "PartialOrd",
            Tr::Ord => "Ord",
            Tr::FromStr => "FromStr",
            Tr::AsRef => "AsRef",
            Tr::Deref => "Deref",
            Tr::TryFrom => "TryFrom",
            Tr::From => "From",
            Tr::Into => "Into",
            Tr::Hash => "Hash",
            Tr::Borrow => "Borrow",
            Tr::Display => "Display",
            Tr::Default => "Default",
            Tr::IntoIterator => "IntoIterator",
            Tr::Serialize => "Serialize",
            Tr::Deserialize => "Deserialize",
            Tr::JsonSchema => "JsonSchema",
            Tr::Arbitrary => "Arbitrary",
        }
    }
}

#[derive(Clone, Copy, Debug, PartialEq, Eq, Hash, PartialOrd, Ord)]
pub enum Vis {
    Private,
    Pub,
    PubCrate,
    PubSuper,
}
impl Vis {
    pub fn src(self) -> &'static str {
        match self {
            Vis::Private => "",
            Vis::Pub => "pub ",
            Vis::PubCrate => "pub(crate) ",
            Vis::PubSuper => "pub(super) ",
        }
    }
}

/// Order in which the attribute blocks are written.
#[derive(Clone, Copy, Debug, PartialEq, Eq, Hash, PartialOrd, Ord)]
pub enum Block {
    Sanitize,
    Validate,
    Derive,
    Default,
    ConstFn,
    NewUnchecked,
}

#[derive(Clone, Debug, PartialEq, Eq, Hash)]
pub struct Decl {
    pub name: String,
    pub inner: Inner,
    pub sans: Vec<San>,
    pub validation: Validation,
    pub derives: Vec<Tr>,
    /// raw default value (before sanitisation), rendered as an expression of the inner type
    pub default: Option<Val>,
    /// when set, the default is WRITTEN as this expression (compound arithmetic over unsuffixed literals,
    /// whose evaluation depends on the type the literals are inferred at); `default` holds the value it
    /// denotes when evaluated at the inner type
    pub default_src: Option<String>,
    pub const_fn: bool,
    pub new_unchecked: bool,
    pub vis: Vis,
    /// block order; empty = canonical order
    pub layout: Vec<Block>,
    pub trailing_commas: bool,
}

impl Decl {
    pub fn new(name: &str, inner: Inner) -> Decl {
        Decl {
            name: name.to_string(),
            inner,
            sans: vec![],
            validation: Validation::None,
            derives: vec![],
            default: None,
            default_src: None,
            const_fn: false,
            new_unchecked: false,
            vis: Vis::Pub,
            layout: vec![],
            trailing_commas: false,
        }
    }
    pub fn has_validation(&self) -> bool {
        !matches!(self.validation, Validation::None)
    }
    pub fn std_validators(&self) -> &[Vd] {
        match &self.validation {
            Validation::Std(v) => v,
            _ => &[],
        }
    }
    pub fn derives(&self, t: Tr) -> bool {
        self.derives.contains(&t)
    }
    pub fn family(&self) -> Family {
        self.inner.family()
    }
    pub fn family_name(&self) -> &'static str {
        match self.family() {
            Family::Int => "integer",
            Family::Float => "float",
            Family::Str => "string",
            Family::Any => "any",
        }
    }
    pub fn error_name(&self) -> String {
        match &self.validation {
            Validation::Custom(f, _) => f.error_path().to_string(),
            _ => format!("{}Error", self.name),
        }
    }
    /// all sanitizers idempotent as a chain (user contract for canonicity checks): built-ins in any
    /// order are expected to be idempotent (that is what C11 checks); a custom sanitizer is admitted
    /// only when it is the single sanitizer and itself idempotent (composites such as
    /// [strip_x, lowercase] are not: "X" -> "x" -> "").
    pub fn chain_idempotent(&self) -> bool {
        let customs: Vec<&UFn> = self.sans.iter().filter_map(|s| if let San::With(f, _) = s { Some(f) } else { None }).collect();
        match customs.len() {
            0 => true,
            1 => self.sans.len() == 1 && customs[0].idempotent(),
            _ => false,
        }
    }
}

/// canonical shape of a declaration: inner type, sanitizer kinds, validator kinds (no values)
pub fn shape(d: &Decl) -> String {
    let sans: Vec<String> = d
        .sans
        .iter()
        .map(|s| match s {
            San::Trim => "trim".to_string(),
            San::Lower => "lowercase".to_string(),
            San::Upper => "uppercase".to_string(),
            San::With(f, _) => format!("with:{f:?}"),
        })
        .collect();
    let vals: Vec<String> = match &d.validation {
        Validation::None => vec![],
        Validation::Std(vs) => vs
            .iter()
            .map(|v| match v.bound() {
                Some(b) if !b.is_literal_form() => format!("{}~expr", v.kind_name()),
                _ => v.kind_name().to_string(),
            })
            .collect(),
        Validation::Custom(f, _) => vec![format!("custom:{f:?}")],
    };
    format!("inner={} san=[{}] val=[{}]{}", d.inner.ty_src(), sans.join(","), vals.join(","), if d.const_fn { " const_fn" } else { "" })
}
