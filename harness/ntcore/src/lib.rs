pub mod admit;
pub mod domain;
pub mod grammar;
pub mod model;
pub mod refsem;
pub mod render;
