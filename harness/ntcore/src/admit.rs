//! REF's admissibility predicate (C08): which declarations must be refused, which must be accepted,
//! and which the property statement leaves open.

use crate::model::*;

#[derive(Clone, Debug, PartialEq, Eq)]
pub enum Verdict {
    /// must be rejected at compile time (by the macro or by rustc in the expansion); class name
    MustReject(&'static str),
    /// like MustReject, and only the macro itself can do it (rustc would accept the expansion or the
    /// trait would silently be missing)
    MacroMustReject(&'static str),
    MustAccept,
    /// grey zone the statement does not decide
    Either(&'static str),
}

#[derive(Clone, Copy, Debug, PartialEq, Eq)]
pub struct Features {
    pub serde: bool,
    pub regex: bool,
    pub arbitrary: bool,
    pub new_unchecked: bool,
    pub schemars08: bool,
}
impl Features {
    pub const ALL: Features = Features { serde: true, regex: true, arbitrary: true, new_unchecked: true, schemars08: true };
    pub const NONE: Features = Features { serde: false, regex: false, arbitrary: false, new_unchecked: false, schemars08: false };
    pub const NOSTD: Features = Features { serde: true, regex: false, arbitrary: true, new_unchecked: false, schemars08: false };
}

/// guard shape as far as trait admissibility is concerned
#[derive(Clone, Copy, Debug, PartialEq, Eq, Hash)]
pub enum GuardShape {
    None,
    /// standard validators without `finite`, without predicate
    Std,
    /// standard validators including `finite` (floats)
    StdFinite,
    /// standard validators including a predicate / regex
    StdPred,
    /// `finite` and a predicate
    StdFinitePred,
    Custom,
}

/// Verdict for a derive set, given family, guard shape, default presence and features.
/// `with_sanitizer`: a custom `with` sanitizer is present.
pub fn derive_verdict(fam: Family, g: GuardShape, set: &[Tr], has_default: bool, with_sanitizer: bool, f: Features) -> Verdict {
    use Tr::*;
    let has = |t: Tr| set.contains(&t);
    let hv = g != GuardShape::None;
    // feature gates first: only the macro can refuse them helpfully, and it must
    if (has(Serialize) || has(Deserialize)) && !f.serde {
        return Verdict::MacroMustReject("gated-trait-without-feature");
    }
    if has(Arbitrary) && !f.arbitrary {
        return Verdict::MacroMustReject("gated-trait-without-feature");
    }
    if has(JsonSchema) && !f.schemars08 {
        return Verdict::MacroMustReject("gated-trait-without-feature");
    }
    if has(From) && hv && fam != Family::Any {
        return Verdict::MacroMustReject("from-with-validation");
    }
    if has(From) && hv && fam == Family::Any {
        return Verdict::MustReject("from-with-validation");
    }
    if has(Default) && !has_default {
        return Verdict::MacroMustReject("default-without-default");
    }
    match fam {
        Family::Float => {
            if (has(Eq) || has(Ord)) && !matches!(g, GuardShape::StdFinite | GuardShape::StdFinitePred) {
                return Verdict::MacroMustReject("float-eq-ord-without-finite");
            }
            if has(Eq) && !has(PartialEq) {
                return Verdict::MustReject("eq-without-partialeq");
            }
            if has(Ord) && !(has(PartialOrd) && has(Eq)) {
                return Verdict::MustReject("ord-without-partialord-eq");
            }
            if has(Hash) {
                return Verdict::MustReject("trait-unsupported-by-inner-type");
            }
            if has(IntoIterator) {
                return Verdict::MustReject("trait-unsupported-by-inner-type");
            }
        }
        Family::Int => {
            if has(IntoIterator) {
                return Verdict::MustReject("trait-unsupported-by-inner-type");
            }
        }
        Family::Str => {
            if has(IntoIterator) || has(Copy) {
                return Verdict::MustReject("trait-unsupported-by-inner-type");
            }
        }
        Family::Any => {
            if has(JsonSchema) {
                return Verdict::Either("jsonschema-on-any-not-supported-yet");
            }
        }
    }
    if has(From) && has(TryFrom) {
        return Verdict::Either("from-and-tryfrom");
    }
    if has(Arbitrary) {
        let blocked = match (fam, g) {
            (_, GuardShape::Custom) | (_, GuardShape::StdPred) | (_, GuardShape::StdFinitePred) => true,
            (Family::Any, g) => g != GuardShape::None,
            (_, g) => g != GuardShape::None && with_sanitizer,
        };
        if blocked {
            return Verdict::Either("arbitrary-cannot-know-the-valid-set");
        }
    }
    // plain-derive prerequisites are Rust's own rules, not nutype's
    if (has(Copy) && !has(Clone)) || (has(Eq) && !has(PartialEq)) || (has(PartialOrd) && !has(PartialEq)) || (has(Ord) && !(has(PartialOrd) && has(Eq))) {
        return Verdict::Either("rust-derive-prerequisite-missing");
    }
    Verdict::MustAccept
}

pub fn guard_shape(d: &Decl) -> GuardShape {
    match &d.validation {
        Validation::None => GuardShape::None,
        Validation::Custom(..) => GuardShape::Custom,
        Validation::Std(vs) => {
            if vs.iter().any(|v| matches!(v, Vd::Predicate(..) | Vd::Regex(..))) {
                // a predicate next to `finite` still counts as NaN-proof for Eq/Ord
                if vs.iter().any(|v| matches!(v, Vd::Finite)) {
                    GuardShape::StdFinitePred
                } else {
                    GuardShape::StdPred
                }
            } else if vs.iter().any(|v| matches!(v, Vd::Finite)) {
                GuardShape::StdFinite
            } else {
                GuardShape::Std
            }
        }
    }
}

/// literal numeric bounds: contradiction check over the ordered inner domain
pub fn bounds_verdict(vs: &[Vd]) -> Option<Verdict> {
    let lit = |b: &Bound| b.is_literal_form();
    let mut lo: Option<(&Val, bool)> = None; // (value, exclusive)
    let mut up: Option<(&Val, bool)> = None;
    for v in vs {
        match v {
            Vd::Greater(b) if lit(b) => lo = Some((&b.v, true)),
            Vd::GreaterOrEqual(b) if lit(b) => lo = Some((&b.v, false)),
            Vd::Less(b) if lit(b) => up = Some((&b.v, true)),
            Vd::LessOrEqual(b) if lit(b) => up = Some((&b.v, false)),
            _ => {}
        }
    }
    if let (Some((l, lx)), Some((u, ux))) = (lo, up) {
        match pcmp(l, u) {
            Some(std::cmp::Ordering::Greater) => return Some(Verdict::MacroMustReject("contradictory-literal-bounds")),
            Some(std::cmp::Ordering::Equal) if lx || ux => return Some(Verdict::MacroMustReject("contradictory-literal-bounds")),
            _ => {}
        }
    }
    let mut mn: Option<u128> = None;
    let mut mx: Option<u128> = None;
    for v in vs {
        match v {
            Vd::LenCharMin(b) if lit(b) => {
                if let Val::U(n) = b.v {
                    mn = Some(n)
                }
            }
            Vd::LenCharMax(b) if lit(b) => {
                if let Val::U(n) = b.v {
                    mx = Some(n)
                }
            }
            _ => {}
        }
    }
    if let (Some(a), Some(b)) = (mn, mx) {
        if a > b {
            return Some(Verdict::MacroMustReject("contradictory-literal-bounds"));
        }
    }
    None
}

fn kind_of_san(s: &San) -> u8 {
    match s {
        San::Trim => 0,
        San::Lower => 1,
        San::Upper => 2,
        San::With(..) => 3,
    }
}

/// Verdict for a whole declaration expressible in the `Decl` AST.
pub fn decl_verdict(d: &Decl, f: Features) -> Verdict {
    // duplicates
    let mut seen = vec![];
    for s in &d.sans {
        let k = kind_of_san(s);
        if seen.contains(&k) {
            return Verdict::MacroMustReject("duplicate-sanitizer");
        }
        seen.push(k);
    }
    if seen.contains(&1) && seen.contains(&2) {
        return Verdict::MacroMustReject("lowercase-and-uppercase");
    }
    let vs = d.std_validators();
    let mut kinds: Vec<&'static str> = vec![];
    for v in vs {
        if kinds.contains(&v.kind_name()) {
            return Verdict::MacroMustReject("duplicate-validator");
        }
        kinds.push(v.kind_name());
    }
    if kinds.contains(&"greater") && kinds.contains(&"greater_or_equal") {
        return Verdict::MacroMustReject("two-lower-bounds");
    }
    if kinds.contains(&"less") && kinds.contains(&"less_or_equal") {
        return Verdict::MacroMustReject("two-upper-bounds");
    }
    if let Some(v) = bounds_verdict(vs) {
        return v;
    }
    if vs.iter().any(|v| matches!(v, Vd::Regex(..))) && !f.regex {
        return Verdict::MacroMustReject("gated-validator-without-feature");
    }
    if d.new_unchecked && !f.new_unchecked {
        return Verdict::MacroMustReject("new-unchecked-without-feature");
    }
    if d.new_unchecked && d.inner.is_generic() {
        return Verdict::Either("new-unchecked-on-generic-type");
    }
    let with_san = d.sans.iter().any(|s| matches!(s, San::With(..)));
    derive_verdict(d.family(), guard_shape(d), &d.derives, d.default.is_some(), with_san, f)
}
