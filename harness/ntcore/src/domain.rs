//! Input alphabets and bounded domains (DESIGN 2.2). Everything here is enumerated completely;
//! nothing is sampled.

use crate::model::*;

#[derive(Clone, Copy, Debug, PartialEq, Eq, PartialOrd, Ord)]
pub enum Tier {
    Quick,
    Thorough,
}
impl Tier {
    pub fn name(self) -> &'static str {
        match self {
            Tier::Quick => "quick",
            Tier::Thorough => "thorough",
        }
    }
    pub fn parse(s: &str) -> Tier {
        match s {
            "thorough" => Tier::Thorough,
            _ => Tier::Quick,
        }
    }
}

/// bounds (denoted values) appearing in a declaration
pub fn decl_bounds(d: &Decl) -> Vec<Val> {
    d.std_validators().iter().filter_map(|v| v.bound().map(|b| b.v.clone())).collect()
}

pub fn int_pivots(t: IntTy, extra: &[Val]) -> Vec<i128> {
    // pivots as i128 where representable; u128 upper half handled separately
    let mut p: Vec<i128> = vec![0, 1, -1, 10, 13, 50, 100];
    for k in [7u32, 8, 15, 16, 31, 32, 63, 64] {
        p.push((1i128 << k) - 1);
        p.push(1i128 << k);
        p.push(-(1i128 << k));
        p.push(-(1i128 << k) - 1);
    }
    for e in extra {
        match e {
            Val::I(x) => p.push(*x),
            Val::U(x) => {
                if let Ok(y) = i128::try_from(*x) {
                    p.push(y)
                }
            }
            _ => {}
        }
    }
    let _ = t;
    p
}

/// the integer input domain: whole type for 8/16 bit, pivot neighbourhoods (±8) otherwise
pub fn int_domain(t: IntTy, d: &Decl) -> Vec<Val> {
    if t.bits() <= 16 {
        let (lo, hi) = match (t.min(), t.max()) {
            (Val::I(a), Val::I(b)) => (a, b),
            (Val::U(a), Val::U(b)) => (a as i128, b as i128),
            _ => unreachable!(),
        };
        return (lo..=hi).map(|x| t.val(x).unwrap()).collect();
    }
    let mut out: Vec<Val> = vec![];
    let b = decl_bounds(d);
    let push_around_i = |c: i128, out: &mut Vec<Val>| {
        for k in -8i128..=8 {
            if let Some(x) = c.checked_add(k) {
                if let Some(v) = t.val(x) {
                    out.push(v);
                }
            }
        }
    };
    for p in int_pivots(t, &b) {
        push_around_i(p, &mut out);
    }
    // extremes of the type itself
    match (t.min(), t.max()) {
        (Val::I(lo), Val::I(hi)) => {
            for k in 0..=8 {
                out.push(Val::I(lo + k));
                out.push(Val::I(hi - k));
            }
        }
        (Val::U(lo), Val::U(hi)) => {
            for k in 0..=8 {
                out.push(Val::U(lo + k));
                out.push(Val::U(hi - k));
            }
            // bounds above i128::MAX
            for e in &b {
                if let Val::U(x) = e {
                    for k in 0..=8u128 {
                        if let Some(y) = x.checked_add(k) {
                            if y <= hi {
                                out.push(Val::U(y));
                            }
                        }
                        if let Some(y) = x.checked_sub(k) {
                            out.push(Val::U(y));
                        }
                    }
                }
            }
        }
        _ => unreachable!(),
    }
    out.sort();
    out.dedup();
    out
}

pub const F32_MANTISSAS: [u32; 31] = {
    let mut m = [0u32; 31];
    m[0] = 0;
    m[1] = 1;
    m[2] = 2;
    m[3] = 0x7f_ffff;
    m[4] = 0x7f_fffe;
    m[5] = 0x2a_aaaa;
    m[6] = 0x55_5555;
    m[7] = 0x40_0000;
    let mut i = 0;
    while i < 23 {
        m[8 + i] = 1 << i;
        i += 1;
    }
    m
};

/// structured f32 set: sign x all exponents x 31 mantissas, plus ±16 ulp around every bound and
/// around 0, ±1, MAX, MIN_POSITIVE
pub fn f32_structured(extra: &[Val]) -> Vec<Val> {
    let mut out: Vec<u32> = vec![];
    for s in [0u32, 1] {
        for e in 0u32..256 {
            for m in F32_MANTISSAS {
                out.push((s << 31) | (e << 23) | m);
            }
        }
    }
    let mut centers: Vec<u32> = vec![0f32.to_bits(), 1f32.to_bits(), (-1f32).to_bits(), f32::MAX.to_bits(), f32::MIN.to_bits(), f32::MIN_POSITIVE.to_bits(), 0.1f32.to_bits(), 64f32.to_bits(), 100f32.to_bits(), 16777216f32.to_bits(), (-0f32).to_bits(), 0.5f32.to_bits(), 50f32.to_bits()];
    for e in extra {
        if let Val::F32(b) = e {
            centers.push(*b);
        }
    }
    for c in centers {
        for k in 0..=16u32 {
            out.push(c.wrapping_add(k));
            out.push(c.wrapping_sub(k));
        }
    }
    out.sort();
    out.dedup();
    out.into_iter().map(Val::F32).collect()
}

pub fn f64_structured(extra: &[Val], dense: bool) -> Vec<Val> {
    let mut out: Vec<u64> = vec![];
    let mut mant: Vec<u64> = vec![0, 1, 2, (1 << 52) - 1, (1 << 52) - 2, 0x5_5555_5555_5555, 0xA_AAAA_AAAA_AAAA, 1 << 51];
    if dense {
        for i in 0..52 {
            mant.push(1 << i);
        }
    } else {
        for i in [0, 1, 22, 23, 28, 29, 30, 50, 51] {
            mant.push(1 << i);
        }
    }
    mant.sort();
    mant.dedup();
    let exps: Vec<u64> = if dense { (0..2048).collect() } else { (0..2048).filter(|e| *e < 4 || *e > 2043 || (*e > 1023 - 70 && *e < 1023 + 70) || e % 64 == 0 || (*e > 1023 - 160 && *e < 1023 - 140) || (*e > 1023 + 120 && *e < 1023 + 135)).collect() };
    for s in [0u64, 1] {
        for e in &exps {
            for m in &mant {
                out.push((s << 63) | (e << 52) | m);
            }
        }
    }
    let mut centers: Vec<u64> = vec![0f64.to_bits(), 1f64.to_bits(), (-1f64).to_bits(), f64::MAX.to_bits(), f64::MIN.to_bits(), f64::MIN_POSITIVE.to_bits(), 0.1f64.to_bits(), 64f64.to_bits(), 100f64.to_bits(), (-0f64).to_bits(), 0.5f64.to_bits(), 50f64.to_bits(), 9007199254740992f64.to_bits()];
    for e in extra {
        if let Val::F64(b) = e {
            centers.push(*b);
        }
    }
    for c in centers {
        for k in 0..=16u64 {
            out.push(c.wrapping_add(k));
            out.push(c.wrapping_sub(k));
        }
    }
    out.sort();
    out.dedup();
    out.into_iter().map(Val::F64).collect()
}

/// string alphabet (DESIGN 2.2)
pub const SIGMA_THOROUGH: [char; 22] = [
    ' ', '\t', '\n', '\u{a0}', '\u{2003}', '\u{3000}', '\u{85}', // White_Space
    '\u{200b}', '\u{feff}', // look blank, are not White_Space
    'a', 'A', 'ß', 'ẞ', 'İ', 'ﬁ', 'Σ', 'ς', '\u{301}', '0', 'x', '🦀', '\0',
];
pub const SIGMA_QUICK: [char; 11] = [' ', '\u{a0}', '\u{200b}', 'a', 'A', 'ß', 'İ', 'Σ', '0', 'x', '🦀'];

/// both tiers use the full 22-character alphabet; they differ in the length bound (3 vs 4)
pub fn sigma(_tier: Tier) -> &'static [char] {
    &SIGMA_THOROUGH
}

pub fn strings_upto(alpha: &[char], l: usize) -> Vec<String> {
    let mut out = vec![String::new()];
    let mut layer = vec![String::new()];
    for _ in 0..l {
        let mut next = Vec::with_capacity(layer.len() * alpha.len());
        for s in &layer {
            for c in alpha {
                let mut t = s.clone();
                t.push(*c);
                next.push(t);
            }
        }
        out.extend(next.iter().cloned());
        layer = next;
    }
    out
}

pub fn string_domain(tier: Tier, d: &Decl) -> Vec<Val> {
    let l = match tier {
        Tier::Quick => 3,
        Tier::Thorough => 4,
    };
    string_domain_len(tier, d, l)
}

/// all strings over the alphabet up to length `l` (+ longer single-character runs around len_char bounds)
pub fn string_domain_len(tier: Tier, d: &Decl, l: usize) -> Vec<Val> {
    let mut v: Vec<String> = strings_upto(sigma(tier), l);
    // a few longer strings so that len_char bounds above L are crossed from both sides
    let maxb = decl_bounds(d).iter().filter_map(|b| if let Val::U(n) = b { Some(*n as usize) } else { None }).max().unwrap_or(0);
    for n in (l + 1)..=(maxb + 2).min(24) {
        for c in ['a', 'ß', '🦀', ' ', '0'] {
            v.push(std::iter::repeat(c).take(n).collect());
        }
        let mut s: String = std::iter::repeat('a').take(n.saturating_sub(2)).collect();
        s.insert(0, ' ');
        s.push(' ');
        v.push(s);
        let d: String = std::iter::repeat('7').take(n).collect();
        v.push(d);
    }
    // byte/char confusions and size shortcuts: for every length bound b <= 24 also runs of 2b+1, 2b+2, 3b+3, 4b+4
    // and 4b+5 characters (a shortcut such as "more than 4*max bytes cannot fit" only fires there), with 1-, 2-,
    // 3- and 4-byte characters and with a 1- or 2-byte prefix (so that multi-byte characters straddle every
    // byte offset class)
    for b in decl_bounds(d).iter().filter_map(|b| if let Val::U(n) = b { Some(*n as usize) } else { None }) {
        if b <= 24 {
            for n in [2 * b + 1, 2 * b + 2, 3 * b + 3, 4 * b + 4, 4 * b + 5] {
                for c in ['a', 'ß', '\u{2003}', '日', '🦀'] {
                    v.push(std::iter::repeat(c).take(n).collect());
                }
                for pre in ["x", "é", "aé"] {
                    let mut s = String::from(pre);
                    s.extend(std::iter::repeat('日').take(n));
                    v.push(s);
                }
            }
        }
    }
    // a fixed set of long texts whose multi-byte characters straddle byte offsets 16, 32, 64 (previews, buffers)
    if matches!(d.inner, Inner::Str | Inner::Cow) {
        for pre in ["", "a", "ab"] {
            for c in ['日', 'é', '🦀'] {
                for n in [12usize, 23, 34] {
                    let mut s = String::from(pre);
                    s.extend(std::iter::repeat(c).take(n));
                    v.push(s);
                }
            }
        }
    }
    // large length bounds (255/256, 65535/65536: where a narrowed counter would wrap): single-character runs
    // one below, at and one above the bound, with 1-, 2- and 4-byte characters
    for b in decl_bounds(d).iter().filter_map(|b| if let Val::U(n) = b { Some(*n as usize) } else { None }) {
        if b > 24 && b <= 70_000 {
            for n in [b - 1, b, b + 1] {
                for c in ['a', 'ß', '日', '🦀'] {
                    v.push(std::iter::repeat(c).take(n).collect());
                }
                let mut s: String = std::iter::repeat('b').take(n).collect();
                s.push(' ');
                v.push(s);
            }
        }
    }
    v.into_iter().map(Val::S).collect()
}

pub fn vec_domain() -> Vec<Val> {
    let alpha = [-1i64, 0, 1, 2];
    let mut out: Vec<Vec<i64>> = vec![vec![]];
    let mut layer: Vec<Vec<i64>> = vec![vec![]];
    for _ in 0..4 {
        let mut next = vec![];
        for s in &layer {
            for c in alpha {
                let mut t = s.clone();
                t.push(c);
                next.push(t);
            }
        }
        out.extend(next.iter().cloned());
        layer = next;
    }
    out.push(vec![i64::MAX, i64::MIN]);
    out.push(vec![i64::MIN, i64::MAX, 0]);
    out.into_iter().map(Val::V).collect()
}

pub fn point_domain() -> Vec<Val> {
    let c = [i32::MIN, i32::MIN + 1, -2, -1, 0, 1, 2, i32::MAX - 1, i32::MAX];
    let mut out = vec![];
    for x in c {
        for y in c {
            out.push(Val::P(x, y));
        }
    }
    out
}

/// the raw-input domain of a declaration
pub fn domain(d: &Decl, tier: Tier) -> Vec<Val> {
    let b = decl_bounds(d);
    match d.inner {
        Inner::Int(t) => int_domain(t, d),
        Inner::GenT => int_domain(IntTy::I32, d),
        Inner::F32 => f32_structured(&b),
        Inner::F64 => f64_structured(&b, tier == Tier::Thorough),
        Inner::Str | Inner::Cow => string_domain(tier, d),
        Inner::VecI64 | Inner::GenVec => vec_domain(),
        Inner::Point => point_domain(),
        Inner::FBox => f32_structured(&b).into_iter().step_by(7).chain([Val::f32(f32::NAN), Val::f32(-f32::NAN), Val::f32(0.0), Val::f32(-0.0), Val::f32(f32::INFINITY), Val::f32(1.5), Val::f32(2000.0)]).collect(),
    }
}
