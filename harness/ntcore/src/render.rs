//! Decl -> Rust source text of the `#[nutype(..)]` declaration, exactly as a user would write it.

use crate::model::*;

/// literal text for a finite numeric value (shortest round-trip for floats)
pub fn num_lit(v: &Val) -> Option<String> {
    match v {
        Val::I(x) => Some(format!("{x}")),
        Val::U(x) => Some(format!("{x}")),
        Val::F32(b) => {
            let f = f32::from_bits(*b);
            if f.is_finite() {
                Some(format!("{f:?}"))
            } else {
                None
            }
        }
        Val::F64(b) => {
            let f = f64::from_bits(*b);
            if f.is_finite() {
                Some(format!("{f:?}"))
            } else {
                None
            }
        }
        _ => None,
    }
}

/// an expression of the given type denoting exactly `v` (used for `const` items and defaults)
pub fn value_expr(v: &Val, ty: &str) -> String {
    match v {
        Val::I(x) => {
            if *x == i128::MIN {
                "i128::MIN".to_string()
            } else {
                format!("{x}")
            }
        }
        Val::U(x) => format!("{x}"),
        Val::F32(b) if ty == "FBox" => format!("FBox(f32::from_bits(0x{b:08x}))"),
        Val::F32(b) => {
            let f = f32::from_bits(*b);
            if f.is_nan() {
                format!("f32::from_bits(0x{b:08x})")
            } else if f == f32::INFINITY {
                "f32::INFINITY".into()
            } else if f == f32::NEG_INFINITY {
                "f32::NEG_INFINITY".into()
            } else {
                format!("{f:?}")
            }
        }
        Val::F64(b) => {
            let f = f64::from_bits(*b);
            if f.is_nan() {
                format!("f64::from_bits(0x{b:016x})")
            } else if f == f64::INFINITY {
                "f64::INFINITY".into()
            } else if f == f64::NEG_INFINITY {
                "f64::NEG_INFINITY".into()
            } else {
                format!("{f:?}")
            }
        }
        Val::S(s) => {
            if ty.starts_with("Cow") {
                format!("Cow::Borrowed({s:?})")
            } else {
                format!("{s:?}")
            }
        }
        Val::V(x) => format!("vec!{x:?}"),
        Val::P(x, y) => format!("Point {{ x: {x}, y: {y} }}"),
    }
}

fn neg(v: &Val) -> Option<Val> {
    match v {
        Val::I(x) => x.checked_neg().map(Val::I),
        Val::U(_) => None,
        Val::F32(b) => Some(Val::f32(-f32::from_bits(*b))),
        Val::F64(b) => Some(Val::f64(-f64::from_bits(*b))),
        _ => None,
    }
}
/// v + k, exactly (floats: only if the inverse operation restores v)
fn add(v: &Val, k: i32) -> Option<Val> {
    match v {
        Val::I(x) => x.checked_add(k as i128).map(Val::I),
        Val::U(x) => {
            if k >= 0 {
                x.checked_add(k as u128).map(Val::U)
            } else {
                x.checked_sub((-k) as u128).map(Val::U)
            }
        }
        Val::F32(b) => {
            let f = f32::from_bits(*b);
            let r = f + k as f32;
            if r.is_finite() && (r - k as f32).to_bits() == *b {
                Some(Val::f32(r))
            } else {
                None
            }
        }
        Val::F64(b) => {
            let f = f64::from_bits(*b);
            let r = f + k as f64;
            if r.is_finite() && (r - k as f64).to_bits() == *b {
                Some(Val::f64(r))
            } else {
                None
            }
        }
        _ => None,
    }
}
fn half(v: &Val) -> Option<Val> {
    match v {
        Val::I(x) if x % 2 == 0 => Some(Val::I(x / 2)),
        Val::U(x) if x % 2 == 0 => Some(Val::U(x / 2)),
        Val::F32(b) => {
            let f = f32::from_bits(*b);
            let h = f / 2.0;
            if f.is_finite() && (h * 2.0).to_bits() == *b {
                Some(Val::f32(h))
            } else {
                None
            }
        }
        Val::F64(b) => {
            let f = f64::from_bits(*b);
            let h = f / 2.0;
            if f.is_finite() && (h * 2.0).to_bits() == *b {
                Some(Val::f64(h))
            } else {
                None
            }
        }
        _ => None,
    }
}
fn is_float(v: &Val) -> bool {
    matches!(v, Val::F32(_) | Val::F64(_))
}
fn is_int(v: &Val) -> bool {
    matches!(v, Val::I(_) | Val::U(_))
}

fn int_ty_of(ty: &str) -> Option<IntTy> {
    Some(match ty {
        "u8" => IntTy::U8,
        "i8" => IntTy::I8,
        "u16" => IntTy::U16,
        "i16" => IntTy::I16,
        "u32" => IntTy::U32,
        "i32" => IntTy::I32,
        "u64" => IntTy::U64,
        "i64" => IntTy::I64,
        "u128" => IntTy::U128,
        "i128" => IntTy::I128,
        "usize" => IntTy::Usize,
        "isize" => IntTy::Isize,
        _ => return None,
    })
}
/// bitwise complement of an integer value in type `ty`
fn bitnot(v: &Val, ty: &str) -> Option<Val> {
    let t = int_ty_of(ty)?;
    match (v, t.max()) {
        (Val::I(x), _) => Some(Val::I(!*x)),
        (Val::U(x), Val::U(hi)) => Some(Val::U(hi - x)),
        _ => None,
    }
}

fn fits(v: &Val, ty: &str) -> bool {
    // does v fit into type `ty`? (for helper constants such as v-1)
    let t = match ty {
        "u8" => IntTy::U8,
        "i8" => IntTy::I8,
        "u16" => IntTy::U16,
        "i16" => IntTy::I16,
        "u32" => IntTy::U32,
        "i32" => IntTy::I32,
        "u64" => IntTy::U64,
        "i64" => IntTy::I64,
        "u128" => IntTy::U128,
        "i128" => IntTy::I128,
        "usize" => IntTy::Usize,
        "isize" => IntTy::Isize,
        _ => return true,
    };
    match (v, t.min(), t.max()) {
        (Val::I(x), Val::I(lo), Val::I(hi)) => *x >= lo && *x <= hi,
        (Val::U(x), Val::U(lo), Val::U(hi)) => *x >= lo && *x <= hi,
        _ => false,
    }
}

pub struct Items {
    pub items: Vec<String>,
    n: usize,
}
impl Items {
    pub fn new() -> Items {
        Items { items: vec![], n: 0 }
    }
    fn fresh(&mut self, p: &str) -> String {
        self.n += 1;
        format!("{p}{}", self.n)
    }
    fn shadow_konst(&mut self, name: &str, ty: &str, v: &Val) -> Option<String> {
        let item = format!("pub const {name}: {ty} = {};", value_expr(v, ty));
        if self.items.iter().any(|i| i.starts_with(&format!("pub const {name}:")) && *i != item) {
            return None;
        }
        if !self.items.contains(&item) {
            self.items.push(item);
        }
        Some(name.to_string())
    }
    fn konst(&mut self, ty: &str, v: &Val) -> String {
        let k = self.fresh("K");
        self.items.push(format!("pub const {k}: {ty} = {};", value_expr(v, ty)));
        k
    }
}

/// Spell bound `b` of type `ty` in its form. `None` when the form cannot denote this value.
pub fn bound_src(b: &Bound, ty: &str, it: &mut Items) -> Option<String> {
    let v = &b.v;
    let fl = is_float(v);
    match b.form {
        Form::Lit => num_lit(v),
        Form::Under => {
            let l = num_lit(v)?;
            if l.contains('e') || l.contains("inf") || l.contains("NaN") {
                return None;
            }
            // put an underscore after the first digit (or at the end of a one-digit literal)
            let (sign, rest) = if let Some(r) = l.strip_prefix('-') { ("-", r.to_string()) } else { ("", l.clone()) };
            let int_len = rest.find('.').unwrap_or(rest.len());
            let out = if int_len >= 2 { format!("{}_{}", &rest[..1], &rest[1..]) } else { format!("{rest}_") };
            Some(format!("{sign}{out}"))
        }
        Form::IntForFloat => {
            if !fl {
                return None;
            }
            let f = match v {
                Val::F32(b) => f32::from_bits(*b) as f64,
                Val::F64(b) => f64::from_bits(*b),
                _ => unreachable!(),
            };
            if f.is_finite() && f.fract() == 0.0 && f.abs() < 1e15 {
                if f == 0.0 && f.is_sign_negative() {
                    Some("-0".into())
                } else {
                    Some(format!("{}", f as i64))
                }
            } else {
                None
            }
        }
        Form::Exp => match v {
            Val::F32(b) if f32::from_bits(*b).is_finite() => Some(format!("{:e}", f32::from_bits(*b))),
            Val::F64(b) if f64::from_bits(*b).is_finite() => Some(format!("{:e}", f64::from_bits(*b))),
            _ => None,
        },
        Form::Suffix => {
            let l = num_lit(v)?;
            if l.contains('e') && !fl {
                return None;
            }
            Some(format!("{l}{ty}"))
        }
        Form::Const => Some(it.konst(ty, v)),
        Form::NegConst | Form::NegSpConst | Form::NegParen => {
            let n = neg(v)?;
            if !fits(&n, ty) {
                return None;
            }
            let k = it.konst(ty, &n);
            Some(match b.form {
                Form::NegConst => format!("-{k}"),
                Form::NegSpConst => format!("- {k}"),
                _ => format!("-({k})"),
            })
        }
        Form::Paren => {
            let k = it.konst(ty, v);
            Some(format!("({k})"))
        }
        Form::Plus1 | Form::OnePlus => {
            let m = add(v, -1)?;
            if !fits(&m, ty) {
                return None;
            }
            let k = it.konst(ty, &m);
            let one = if fl { "1.0" } else { "1" };
            Some(if b.form == Form::Plus1 { format!("{k} + {one}") } else { format!("{one} + {k}") })
        }
        Form::Minus1 => {
            let m = add(v, 1)?;
            if !fits(&m, ty) {
                return None;
            }
            let k = it.konst(ty, &m);
            let one = if fl { "1.0" } else { "1" };
            Some(format!("{k} - {one}"))
        }
        Form::Shl => {
            if !is_int(v) {
                return None;
            }
            let h = half(v)?;
            let k = it.konst(ty, &h);
            Some(format!("{k} << 1"))
        }
        Form::Mul2 => {
            let h = half(v)?;
            let k = it.konst(ty, &h);
            Some(if fl { format!("{k} * 2.0") } else { format!("{k} * 2") })
        }
        Form::AsCast => {
            if fl {
                let w = match v {
                    Val::F32(b) => f32::from_bits(*b) as f64,
                    Val::F64(b) => f64::from_bits(*b),
                    _ => unreachable!(),
                };
                if w.is_nan() {
                    return None;
                }
                let k = it.konst("f64", &Val::f64(w));
                Some(format!("{k} as {ty}"))
            } else {
                let w = match v {
                    Val::I(x) => i64::try_from(*x).ok()?,
                    Val::U(x) => i64::try_from(*x).ok()?,
                    _ => return None,
                };
                let k = it.konst("i64", &Val::I(w as i128));
                Some(format!("{k} as {ty}"))
            }
        }
        Form::TyExtreme => match v {
            Val::F32(b) => {
                let f = f32::from_bits(*b);
                [("MAX", f32::MAX), ("MIN", f32::MIN), ("INFINITY", f32::INFINITY), ("NEG_INFINITY", f32::NEG_INFINITY), ("EPSILON", f32::EPSILON), ("MIN_POSITIVE", f32::MIN_POSITIVE)]
                    .iter()
                    .find(|(_, x)| x.to_bits() == f.to_bits())
                    .map(|(n, _)| format!("{ty}::{n}"))
            }
            Val::F64(b) => {
                let f = f64::from_bits(*b);
                [("MAX", f64::MAX), ("MIN", f64::MIN), ("INFINITY", f64::INFINITY), ("NEG_INFINITY", f64::NEG_INFINITY), ("EPSILON", f64::EPSILON), ("MIN_POSITIVE", f64::MIN_POSITIVE)]
                    .iter()
                    .find(|(_, x)| x.to_bits() == f.to_bits())
                    .map(|(n, _)| format!("{ty}::{n}"))
            }
            Val::I(_) | Val::U(_) => {
                let t = ALL_INT.iter().find(|t| t.name() == ty)?;
                if *v == (*t).min() {
                    Some(format!("{ty}::MIN"))
                } else if *v == (*t).max() {
                    Some(format!("{ty}::MAX"))
                } else {
                    None
                }
            }
            _ => None,
        },
        Form::FnCall => {
            let f = it.fresh("kf");
            it.items.push(format!("pub const fn {f}() -> {ty} {{ {} }}", value_expr(v, ty)));
            Some(format!("{f}()"))
        }
        Form::Block => {
            let k = it.konst(ty, v);
            Some(format!("{{ {k} }}"))
        }
        Form::IfExpr => {
            let k = it.konst(ty, v);
            Some(format!("if true {{ {k} }} else {{ {k} }}"))
        }
        Form::NegPlus => {
            let m = add(v, -1)?;
            let n = neg(&m)?;
            if !fits(&n, ty) || !fits(&m, ty) {
                return None;
            }
            let k = it.konst(ty, &n);
            let one = if fl { "1.0" } else { "1" };
            Some(format!("-{k} + {one}"))
        }
        Form::Shr => {
            let dbl = match v {
                Val::I(x) => Val::I(x.checked_mul(2)?),
                Val::U(x) => Val::U(x.checked_mul(2)?),
                _ => return None,
            };
            if !fits(&dbl, ty) {
                return None;
            }
            let k = it.konst(ty, &dbl);
            Some(format!("{k} >> 1"))
        }
        Form::ShadowMax => it.shadow_konst("MAX", ty, v),
        Form::ShadowMin => it.shadow_konst("MIN", ty, v),
        Form::NotLit => {
            let n = bitnot(v, ty)?;
            Some(format!("!{}", num_lit(&n)?))
        }
        Form::NotConst => {
            let n = bitnot(v, ty)?;
            let k = it.konst(ty, &n);
            Some(format!("!{k}"))
        }
        Form::NegLitParen => {
            let n = neg(v)?;
            if !fits(&n, ty) {
                return None;
            }
            let l = num_lit(&n)?;
            if l.contains("inf") || l.contains("NaN") {
                return None;
            }
            Some(format!("-({l})"))
        }
        Form::DoubleNeg => {
            let l = num_lit(v)?;
            if l.starts_with('-') || l.contains("inf") || l.contains("NaN") {
                return None;
            }
            // only where -v is representable as an intermediate value
            if !fits(&neg(v)?, ty) {
                return None;
            }
            Some(format!("-(-{l})"))
        }
        Form::ModPath => {
            let m = it.fresh("km");
            it.items.push(format!("pub mod {m} {{ pub const K: {ty} = {}; }}", value_expr(v, ty)));
            Some(format!("{m}::K"))
        }
    }
}

pub fn ufn_path(f: UFn, inner: Inner) -> String {
    let n = match f {
        UFn::Clamp10_100 => "clamp_10_100",
        UFn::WrapAdd1 => "wrap_add1",
        UFn::ToEven => "to_even",
        UFn::CClamp => match inner {
            Inner::Int(IntTy::I32) => "c_clamp_i32",
            Inner::Int(IntTy::U8) => "c_clamp_u8",
            _ => panic!("no const clamp for {inner:?}"),
        },
        UFn::Clamp01 => "clamp_0_1",
        UFn::AbsF => "abs_f",
        UFn::NanToZero => "nan_to_zero",
        UFn::CClamp01 => "c_clamp01_f64",
        UFn::StripX => "strip_x",
        UFn::Truncate3 => "truncate3",
        UFn::Dup => "dup",
        UFn::SortDedup => "sort_dedup",
        UFn::PointAbsY => "point_abs_y",
        UFn::FBoxAbs => "fbox_abs",
        UFn::OrAnon => "or_anon",
        UFn::Recip => "recip",
        UFn::FBoxSmall => "fbox_small",
        UFn::IsEven => "is_even",
        UFn::CIsEven => match inner {
            Inner::Int(IntTy::I32) => "c_is_even_i32",
            Inner::Int(IntTy::U8) => "c_is_even_u8",
            _ => panic!("no const is_even for {inner:?}"),
        },
        UFn::Not13 => "not_13",
        UFn::IsIntegral => "is_integral",
        UFn::NoX => "no_x",
        UFn::FirstNotX => "first_not_x",
        UFn::InvSmall => "inv_small",
        UFn::HasA => "has_a",
        UFn::VecNonEmpty => "vec_nonempty",
        UFn::VecShort => "vec_short",
        UFn::PointOnDiag => "point_on_diag",
        UFn::CPointOnDiag => "c_point_on_diag",
        UFn::CheckInt => "check_int",
        UFn::CheckFloat => "check_float",
        UFn::CheckStr => "check_str",
        UFn::CheckVec => "check_vec",
    };
    format!("ulib::{n}")
}

#[derive(Clone, Copy, PartialEq)]
pub enum FnRole {
    Sanitizer,
    Predicate,
    Check,
}

pub fn ufn_src(f: UFn, sp: Spell, inner: Inner, role: FnRole) -> String {
    let p = ufn_path(f, inner);
    let arg_ty = match role {
        FnRole::Sanitizer => inner.ty_src().to_string(),
        FnRole::Predicate | FnRole::Check => {
            if inner == Inner::Str {
                "&str".to_string()
            } else {
                format!("&{}", inner.ty_src())
            }
        }
    };
    match sp {
        Spell::Path => p,
        Spell::Bare => p.trim_start_matches("ulib::").to_string(),
        Spell::ClosureReturn => match role {
            // "return the argument itself when the function is the identity on it" – identity is bitwise for floats
            // (abs(-0.0) == -0.0 but is a different value)
            FnRole::Sanitizer if matches!(inner, Inner::F32 | Inner::F64) => format!("|v| {{ let w = {p}(v); if w.to_bits() == v.to_bits() {{ return v; }} w }}"),
            FnRole::Sanitizer => format!("|v| {{ let w = {p}(v.clone()); if w == v {{ return v; }} w }}"),
            FnRole::Predicate => format!("|v| {{ if {p}(v) {{ return true; }} false }}"),
            FnRole::Check => format!("|v| {{ if let Err(e) = {p}(v) {{ return Err(e); }} Ok(()) }}"),
        },
        Spell::Closure => format!("|v| {p}(v)"),
        Spell::ClosureTyped => format!("|v: {arg_ty}| {p}(v)"),
        Spell::ClosureMut => format!("|mut v| {{ v = {p}(v); v }}"),
    }
}

fn re_src(r: Re, sp: ReSpell) -> String {
    match (r, sp) {
        (Re::Digits, ReSpell::Lit) => format!("{:?}", ulib::RE_DIGITS_SRC),
        (Re::Lower, ReSpell::Lit) => format!("{:?}", ulib::RE_LOWER_SRC),
        (Re::Digits, ReSpell::StaticPath) => "ulib::RE_DIGITS".into(),
        (Re::Lower, ReSpell::StaticPath) => "ulib::RE_LOWER".into(),
        (Re::HasDigit, ReSpell::Lit) => format!("{:?}", ulib::RE_HASDIGIT_SRC),
        (Re::HasDigit, ReSpell::StaticPath) => "ulib::RE_HASDIGIT".into(),
    }
}

pub fn san_src(s: &San, inner: Inner) -> String {
    match s {
        San::Trim => "trim".into(),
        San::Lower => "lowercase".into(),
        San::Upper => "uppercase".into(),
        San::With(f, sp) => format!("with = {}", ufn_src(*f, *sp, inner, FnRole::Sanitizer)),
    }
}

pub fn vd_src(vd: &Vd, inner: Inner, it: &mut Items) -> Option<String> {
    let ty = inner.ty_src();
    Some(match vd {
        Vd::Greater(b) => format!("greater = {}", bound_src(b, ty, it)?),
        Vd::GreaterOrEqual(b) => format!("greater_or_equal = {}", bound_src(b, ty, it)?),
        Vd::Less(b) => format!("less = {}", bound_src(b, ty, it)?),
        Vd::LessOrEqual(b) => format!("less_or_equal = {}", bound_src(b, ty, it)?),
        Vd::Finite => "finite".into(),
        Vd::Predicate(f, sp) => format!("predicate = {}", ufn_src(*f, *sp, inner, FnRole::Predicate)),
        Vd::NotEmpty => "not_empty".into(),
        Vd::LenCharMin(b) => format!("len_char_min = {}", bound_src(b, "usize", it)?),
        Vd::LenCharMax(b) => format!("len_char_max = {}", bound_src(b, "usize", it)?),
        Vd::Regex(r, sp) => format!("regex = {}", re_src(*r, *sp)),
    })
}

pub struct DeclSrc {
    /// const / fn / mod items the declaration refers to
    pub items: Vec<String>,
    /// text between `#[nutype(` and `)]`
    pub attr: String,
    /// `pub struct Name(u8);`
    pub item: String,
}

impl DeclSrc {
    /// complete text: items, attribute, struct
    pub fn text(&self) -> String {
        let mut s = String::new();
        for i in &self.items {
            s.push_str(i);
            s.push('\n');
        }
        s.push_str(&format!("#[nutype({})]\n{}\n", self.attr, self.item));
        s
    }
}

pub fn block_src(d: &Decl, b: Block, it: &mut Items) -> Option<Option<String>> {
    let tc = if d.trailing_commas { "," } else { "" };
    Some(match b {
        Block::Sanitize => {
            if d.sans.is_empty() {
                None
            } else {
                let xs: Vec<String> = d.sans.iter().map(|s| san_src(s, d.inner)).collect();
                Some(format!("sanitize({}{tc})", xs.join(", ")))
            }
        }
        Block::Validate => match &d.validation {
            Validation::None => None,
            Validation::Std(vs) => {
                let mut xs = vec![];
                for vd in vs {
                    xs.push(vd_src(vd, d.inner, it)?);
                }
                Some(format!("validate({}{tc})", xs.join(", ")))
            }
            Validation::Custom(f, sp) => Some(format!("validate(with = {}, error = {}{tc})", ufn_src(*f, *sp, d.inner, FnRole::Check), f.error_path())),
        },
        Block::Derive => {
            if d.derives.is_empty() {
                None
            } else {
                let xs: Vec<&str> = d.derives.iter().map(|t| t.name()).collect();
                Some(format!("derive({}{tc})", xs.join(", ")))
            }
        }
        Block::Default => match (&d.default_src, &d.default) {
            (Some(src), Some(_)) => Some(format!("default = {src}")),
            (_, v) => v.as_ref().map(|v| format!("default = {}", value_expr(v, d.inner.ty_src()))),
        },
        Block::ConstFn => {
            if d.const_fn {
                Some("const_fn".into())
            } else {
                None
            }
        }
        Block::NewUnchecked => {
            if d.new_unchecked {
                Some("new_unchecked".into())
            } else {
                None
            }
        }
    })
}

pub const CANON_LAYOUT: [Block; 6] = [Block::Sanitize, Block::Validate, Block::Derive, Block::Default, Block::ConstFn, Block::NewUnchecked];

/// Render the declaration; `None` if some bound form cannot denote its value.
pub fn render(d: &Decl) -> Option<DeclSrc> {
    let mut it = Items::new();
    let layout: Vec<Block> = if d.layout.is_empty() { CANON_LAYOUT.to_vec() } else { d.layout.clone() };
    let mut parts = vec![];
    for b in layout {
        if let Some(s) = block_src(d, b, &mut it)? {
            parts.push(s);
        }
    }
    let mut attr = parts.join(", ");
    if d.trailing_commas && !attr.is_empty() {
        attr.push(',');
    }
    let item = format!("{}struct {}{}({});", d.vis.src(), d.name, d.inner.generics_decl(), d.inner.ty_src());
    // functions spelled as a bare identifier are imported next to the declaration
    let mut bare: Vec<UFn> = vec![];
    for s in &d.sans {
        if let San::With(f, Spell::Bare) = s {
            bare.push(*f);
        }
    }
    match &d.validation {
        Validation::Std(vs) => {
            for v in vs {
                if let Vd::Predicate(f, Spell::Bare) = v {
                    bare.push(*f);
                }
            }
        }
        Validation::Custom(f, Spell::Bare) => bare.push(*f),
        _ => {}
    }
    bare.sort();
    bare.dedup();
    for f in bare {
        it.items.push(format!("#[allow(unused_imports)] use {};", ufn_path(f, d.inner)));
    }
    Some(DeclSrc { items: it.items, attr, item })
}

pub const DECL_PRELUDE: &str = "#[allow(unused_imports)] use nutype::nutype;\n#[allow(unused_imports)] use ulib::*;\n#[allow(unused_imports)] use std::borrow::Cow;\n";
