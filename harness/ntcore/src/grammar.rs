//! Bounded declaration grammar for the runtime explorer (DESIGN 2.1). Deterministic enumeration;
//! the generated subject crates and the driver call the same function, so subject `i` of the
//! compiled code is `rt_subjects(tier)[i]`.

use crate::domain::Tier;
use crate::model::*;
use crate::refsem;

#[derive(Clone, Debug)]
pub struct Subj {
    pub decl: Decl,
    pub tag: String,
    /// generate serde glue for all container positions (else top + Vec only)
    pub serde_full: bool,
}

fn permutations<T: Clone>(xs: &[T]) -> Vec<Vec<T>> {
    if xs.len() <= 1 {
        return vec![xs.to_vec()];
    }
    let mut out = vec![];
    for i in 0..xs.len() {
        let mut rest = xs.to_vec();
        let x = rest.remove(i);
        for mut p in permutations(&rest) {
            p.insert(0, x.clone());
            out.push(p);
        }
    }
    out
}

/// abstract validator kinds, bounds filled in later
#[derive(Clone, Copy, Debug, PartialEq, Eq)]
pub enum VK {
    G,
    GE,
    L,
    LE,
    Fin,
    Pred,
    NotEmpty,
    Min,
    Max,
    Regex,
}

/// all permutations of all subsets (size <= 3) of {lower, upper, predicate}
pub fn int_vlists() -> Vec<Vec<VK>> {
    let lowers = [None, Some(VK::G), Some(VK::GE)];
    let uppers = [None, Some(VK::L), Some(VK::LE)];
    let preds = [None, Some(VK::Pred)];
    let mut out = vec![];
    for lo in lowers {
        for up in uppers {
            for p in preds {
                let set: Vec<VK> = [lo, up, p].iter().flatten().cloned().collect();
                if set.is_empty() {
                    continue;
                }
                out.extend(permutations(&set));
            }
        }
    }
    out
}

pub fn float_vlists() -> Vec<Vec<VK>> {
    let lowers = [None, Some(VK::G), Some(VK::GE)];
    let uppers = [None, Some(VK::L), Some(VK::LE)];
    let fins = [None, Some(VK::Fin)];
    let preds = [None, Some(VK::Pred)];
    let mut out = vec![];
    for lo in lowers {
        for up in uppers {
            for f in fins {
                for p in preds {
                    let set: Vec<VK> = [lo, up, f, p].iter().flatten().cloned().collect();
                    if set.is_empty() {
                        continue;
                    }
                    if set.len() <= 3 {
                        out.extend(permutations(&set));
                    } else {
                        // the full set in two orders
                        out.push(set.clone());
                        let mut r = set.clone();
                        r.reverse();
                        out.push(r);
                    }
                }
            }
        }
    }
    out
}

pub fn string_sanlists() -> Vec<Vec<San>> {
    let w = San::With(UFn::StripX, Spell::Path);
    let mut out: Vec<Vec<San>> = vec![vec![]];
    let singles = [San::Trim, San::Lower, San::Upper, w.clone()];
    for s in &singles {
        out.push(vec![s.clone()]);
    }
    let pairs: [[San; 2]; 5] = [[San::Trim, San::Lower], [San::Trim, San::Upper], [San::Trim, w.clone()], [San::Lower, w.clone()], [San::Upper, w.clone()]];
    for p in &pairs {
        out.extend(permutations(&p[..]));
    }
    let triples: [[San; 3]; 2] = [[San::Trim, San::Lower, w.clone()], [San::Trim, San::Upper, w.clone()]];
    for t in &triples {
        out.extend(permutations(&t[..]));
    }
    out
}

pub fn string_vlists() -> Vec<Vec<VK>> {
    let kinds = [VK::NotEmpty, VK::Min, VK::Max, VK::Pred, VK::Regex];
    let mut out = vec![];
    for k in kinds {
        out.push(vec![k]);
    }
    for i in 0..kinds.len() {
        for j in 0..kinds.len() {
            if i != j {
                out.push(vec![kinds[i], kinds[j]]);
            }
        }
    }
    out.push(vec![VK::NotEmpty, VK::Min, VK::Max]);
    out.push(vec![VK::Max, VK::Min, VK::NotEmpty]);
    out.push(vec![VK::Min, VK::NotEmpty, VK::Regex]);
    out.push(vec![VK::Regex, VK::Min, VK::NotEmpty]);
    out.push(vec![VK::Pred, VK::NotEmpty, VK::Max]);
    out.push(vec![VK::Max, VK::Pred, VK::Regex]);
    out.push(vec![VK::NotEmpty, VK::Min, VK::Max, VK::Pred, VK::Regex]);
    out.push(vec![VK::Regex, VK::Pred, VK::Max, VK::Min, VK::NotEmpty]);
    out.push(vec![VK::Min, VK::Max, VK::Regex]);
    out
}

/// (lower, upper) bound positions for an integer type, both always valid for inclusive use;
/// callers drop pairs that are contradictory for exclusive kinds.
pub fn int_positions(t: IntTy) -> Vec<(Val, Val)> {
    let v = |x: i128| t.val(x).unwrap();
    let (mn, mx) = (t.min(), t.max());
    let add = |a: &Val, k: i128| -> Val {
        match a {
            Val::I(x) => Val::I(x + k),
            Val::U(x) => Val::U((*x as i128 + k) as u128),
            _ => unreachable!(),
        }
    };
    let mut p = vec![(v(10), v(100)), (mn.clone(), mx.clone()), (add(&mn, 1), sub1(&mx)), (v(0), v(1)), (v(100), v(101)), (v(5), v(5)), (v(12), v(14))];
    if t.signed() {
        p.push((v(-10), v(100)));
        p.push((v(-1), v(0)));
        p.push((v(-100), v(-10)));
        p.push((mn.clone(), v(-1)));
    } else {
        p.push((v(0), v(0)));
        p.push((v(1), mx.clone()));
    }
    if t.bits() >= 16 {
        p.push((v(255), v(257)));
        p.push((v(1000), v(30000)));
    }
    p
}
fn sub1(a: &Val) -> Val {
    match a {
        Val::I(x) => Val::I(x - 1),
        Val::U(x) => Val::U(x - 1),
        _ => unreachable!(),
    }
}

pub fn f32_positions() -> Vec<(f32, f32)> {
    vec![(0.0, 1.0), (-1.0, 1.0), (0.1, 100.0), (64.0, 100.0), (-1e10, 1e10), (f32::MIN_POSITIVE, 1.0), (-0.0, 0.0), (16777216.0, 16777218.0), (-100.0, -0.5), (1e-40, 1e-38), (f32::MIN, f32::MAX), (12.5, 12.5)]
}
pub fn f64_positions() -> Vec<(f64, f64)> {
    vec![(0.0, 1.0), (-1.0, 1.0), (0.1, 100.0), (64.0, 100.0), (-1e10, 1e10), (f64::MIN_POSITIVE, 1.0), (-0.0, 0.0), (9007199254740992.0, 9007199254740994.0), (-100.0, -0.5), (1e-310, 1e-300), (f64::MIN, f64::MAX), (12.5, 12.5)]
}

/// Is the numeric bound pair admissible (not contradictory) for the given kinds?
pub fn bounds_ok(lo_kind: Option<VK>, lo: &Val, up_kind: Option<VK>, up: &Val) -> bool {
    match (lo_kind, up_kind) {
        (Some(lk), Some(uk)) => {
            let strict = lk == VK::G || uk == VK::L;
            match pcmp(lo, up) {
                Some(std::cmp::Ordering::Less) => true,
                Some(std::cmp::Ordering::Equal) => !strict,
                _ => false,
            }
        }
        _ => true,
    }
}

/// the maximal derive set the macro documents as derivable for this declaration
pub fn max_derives(d: &Decl, prefer_from: bool) -> Vec<Tr> {
    use Tr::*;
    let hv = d.has_validation();
    let std = d.std_validators();
    let has_pred = std.iter().any(|v| matches!(v, Vd::Predicate(..) | Vd::Regex(..)));
    let custom = matches!(d.validation, Validation::Custom(..));
    let has_with = d.sans.iter().any(|s| matches!(s, San::With(..)));
    let mut t = vec![Debug, Clone, PartialEq, PartialOrd, AsRef, Deref, Into, Borrow, Serialize, Deserialize];
    if hv || !prefer_from {
        t.push(TryFrom);
    } else {
        t.push(From);
    }
    if d.default.is_some() {
        t.push(Default);
    }
    match d.inner.family() {
        Family::Int => {
            t.extend([Copy, Eq, Ord, Hash, FromStr, Display]);
            if !hv || (!custom && !has_pred && !has_with) {
                t.push(Arbitrary);
            }
        }
        Family::Float => {
            t.extend([Copy, FromStr, Display]);
            if std.iter().any(|v| matches!(v, Vd::Finite)) {
                t.extend([Eq, Ord]);
            }
            if !hv || (!custom && !has_pred && !has_with) {
                t.push(Arbitrary);
            }
        }
        Family::Str => {
            t.extend([Eq, Ord, Hash, FromStr, Display]);
            if !hv || (!custom && !has_pred && !has_with) {
                t.push(Arbitrary);
            }
        }
        Family::Any => match d.inner {
            Inner::VecI64 | Inner::GenVec => {
                t.extend([Eq, Ord, Hash, IntoIterator]);
                if !hv {
                    t.push(Arbitrary);
                }
            }
            Inner::Point => {
                t.extend([Copy, Eq, Ord, Hash, FromStr, Display]);
                if !hv {
                    t.push(Arbitrary);
                }
            }
            Inner::FBox => {
                t.push(Copy);
                t.retain(|x| !matches!(x, Serialize | Deserialize));
            }
            Inner::GenT => {
                // TryFrom / From / Into on a bare type parameter collide with std's blanket impls (coherence)
                t.extend([Copy, Eq, Ord, Hash, FromStr, Display]);
                t.retain(|x| !matches!(x, TryFrom | From | Into));
            }
            Inner::Cow => {
                t.extend([Eq, Ord, Hash, Display]);
                t.retain(|x| !matches!(x, Borrow | Deserialize | TryFrom | From | Default));
            }
            _ => unreachable!(),
        },
    }
    t.sort();
    t.dedup();
    t
}

fn mk_int_validators(t: IntTy, vl: &[VK], lo: &Val, up: &Val, pred: (UFn, Spell), form: Form) -> Option<Vec<Vd>> {
    let lk = vl.iter().find(|k| matches!(k, VK::G | VK::GE)).cloned();
    let uk = vl.iter().find(|k| matches!(k, VK::L | VK::LE)).cloned();
    if !bounds_ok(lk, lo, uk, up) {
        return None;
    }
    // `greater = MAX` / `less = MIN` leave nothing (and overflow in the Arbitrary range): skip
    if lk == Some(VK::G) && *lo == t.max() {
        return None;
    }
    if uk == Some(VK::L) && *up == t.min() {
        return None;
    }
    Some(
        vl.iter()
            .map(|k| match k {
                VK::G => Vd::Greater(Bound { v: lo.clone(), form }),
                VK::GE => Vd::GreaterOrEqual(Bound { v: lo.clone(), form }),
                VK::L => Vd::Less(Bound { v: up.clone(), form }),
                VK::LE => Vd::LessOrEqual(Bound { v: up.clone(), form }),
                VK::Pred => Vd::Predicate(pred.0, pred.1),
                _ => unreachable!(),
            })
            .collect(),
    )
}

fn name_for(i: usize) -> String {
    format!("Nt{i}")
}

pub fn int_subjects(tier: Tier, out: &mut Vec<Subj>) {
    let vls = int_vlists();
    let sans: [Vec<San>; 6] = [vec![], vec![San::With(UFn::Clamp10_100, Spell::Path)], vec![], vec![San::With(UFn::WrapAdd1, Spell::Closure)], vec![San::With(UFn::ToEven, Spell::ClosureMut)], vec![San::With(UFn::Clamp10_100, Spell::ClosureTyped)]];
    let preds = [(UFn::IsEven, Spell::Path), (UFn::Not13, Spell::Closure), (UFn::IsEven, Spell::ClosureTyped)];
    let mut n = 0usize;
    let push = |t: IntTy, vl: &[VK], pi: usize, si: usize, out: &mut Vec<Subj>, n: &mut usize| {
        let pos = int_positions(t);
        // find the first admissible position starting at pi
        for k in 0..pos.len() {
            let (lo, up) = &pos[(pi + k) % pos.len()];
            let form = if (*n) % 3 == 2 { Form::Const } else { Form::Lit };
            if let Some(vs) = mk_int_validators(t, vl, lo, up, preds[*n % preds.len()], form) {
                let mut d = Decl::new("X", Inner::Int(t));
                d.sans = sans[si % sans.len()].clone();
                d.validation = Validation::Std(vs);
                // a default on every third subject: rotate valid / invalid / needs-sanitising
                if *n % 3 == 0 {
                    d.default = Some(match *n % 9 {
                        0 => lo.clone(),
                        3 => up.clone(),
                        _ => t.val(50).unwrap(),
                    });
                }
                d.derives = max_derives(&d, false);
                out.push(Subj { decl: d, tag: format!("int/{}/{:?}", t.name(), vl), serde_full: *n % 8 == 0 });
                *n += 1;
                return;
            }
        }
    };
    match tier {
        Tier::Quick => {
            let full = [IntTy::U8, IntTy::I8, IntTy::U16, IntTy::I16];
            for (i, vl) in vls.iter().enumerate() {
                push(full[i % 4], vl, i, i, out, &mut n);
            }
            let wide = [IntTy::U32, IntTy::I32, IntTy::U64, IntTy::I64, IntTy::U128, IntTy::I128, IntTy::Usize, IntTy::Isize];
            for (j, t) in wide.iter().enumerate() {
                for k in 0..3 {
                    let i = (j * 3 + k) * 2 + 1;
                    push(*t, &vls[i % vls.len()], i, i, out, &mut n);
                }
            }
        }
        Tier::Thorough => {
            for t in ALL_INT {
                for (i, vl) in vls.iter().enumerate() {
                    push(t, vl, i, i, out, &mut n);
                    push(t, vl, i + 3, i + 1, out, &mut n);
                }
            }
        }
    }
    // no validation: `new`, From / TryFrom(Infallible)
    for (j, t) in [IntTy::U8, IntTy::I16, IntTy::I64, IntTy::U128].iter().enumerate() {
        for (k, s) in sans.iter().enumerate() {
            if tier == Tier::Quick && (j + k) % 3 != 0 {
                continue;
            }
            let mut d = Decl::new("X", Inner::Int(*t));
            d.sans = s.clone();
            d.default = if k % 2 == 0 { Some(t.val(7).unwrap()) } else { None };
            d.derives = max_derives(&d, (j + k) % 2 == 0);
            out.push(Subj { decl: d, tag: format!("int/{}/novalidation", t.name()), serde_full: k == 0 });
        }
    }
    // custom validation (with/error)
    for (j, t) in [IntTy::U8, IntTy::I32, IntTy::I128].iter().enumerate() {
        let mut d = Decl::new("X", Inner::Int(*t));
        d.validation = Validation::Custom(UFn::CheckInt, Spell::Path);
        if j == 1 {
            d.sans = vec![San::With(UFn::WrapAdd1, Spell::Path)];
        }
        d.default = Some(t.val(if j == 2 { 51 } else { 50 }).unwrap());
        d.derives = max_derives(&d, false);
        out.push(Subj { decl: d, tag: format!("int/{}/custom", t.name()), serde_full: j == 0 });
    }
    // const_fn twins: same declaration with and without const_fn
    for t in [IntTy::I32, IntTy::U8] {
        for cf in [false, true] {
            let mut d = Decl::new("X", Inner::Int(t));
            d.sans = vec![San::With(UFn::CClamp, Spell::Path)];
            d.validation = Validation::Std(vec![Vd::GreaterOrEqual(Bound::lit(t.val(12).unwrap())), Vd::Predicate(UFn::CIsEven, Spell::Path), Vd::Less(Bound { v: t.val(90).unwrap(), form: Form::Const })]);
            d.const_fn = cf;
            d.derives = vec![Tr::Debug, Tr::Clone, Tr::Copy, Tr::PartialEq, Tr::TryFrom, Tr::Into];
            out.push(Subj { decl: d, tag: format!("int/{}/const_fn={cf}", t.name()), serde_full: false });
        }
    }
    // single bound validators with the bound next to the extreme of the type (incl. u128 bounds above
    // i128::MAX and i128 bounds near MIN): messages must print them as the inner type does (C16)
    let ext_types: Vec<IntTy> = match tier {
        Tier::Quick => vec![IntTy::U128, IntTy::I128, IntTy::U64, IntTy::I8],
        Tier::Thorough => ALL_INT.to_vec(),
    };
    for (ti, t) in ext_types.iter().enumerate() {
        for k in 0..4usize {
            let (lo1, hi1) = (add_v(&(*t).min(), 1), sub_v(&(*t).max(), 1));
            let form = if (ti + k) % 2 == 0 { Form::Lit } else { Form::Const };
            let vd = match k {
                0 => Vd::Greater(Bound { v: lo1.clone(), form }),
                1 => Vd::GreaterOrEqual(Bound { v: lo1.clone(), form }),
                2 => Vd::Less(Bound { v: hi1.clone(), form }),
                _ => Vd::LessOrEqual(Bound { v: hi1.clone(), form }),
            };
            let mut d = Decl::new("X", Inner::Int(*t));
            d.validation = Validation::Std(vec![vd]);
            d.derives = vec![Tr::Debug, Tr::Clone, Tr::Copy, Tr::PartialEq, Tr::TryFrom, Tr::Into, Tr::FromStr, Tr::Display, Tr::Deserialize, Tr::Serialize];
            out.push(Subj { decl: d, tag: format!("int/{}/extreme-bound", t.name()), serde_full: true });
        }
    }
    // contradictory bounds given as EXPRESSIONS (the macro cannot evaluate them): the declaration compiles, no
    // value is valid, and values between the bounds violate both rules at once – the first written one must
    // be reported (C07)
    for (k, t) in [IntTy::I16, IntTy::U8, IntTy::I64].iter().enumerate() {
        for order in 0..2 {
            let lo = Vd::GreaterOrEqual(Bound { v: t.val(100).unwrap(), form: Form::Const });
            let up = Vd::Less(Bound { v: t.val(if k == 1 { 50 } else { -5i128.max(0) + 20 }).unwrap(), form: Form::Const });
            let mut d = Decl::new("X", Inner::Int(*t));
            d.validation = Validation::Std(if order == 0 { vec![lo.clone(), up.clone()] } else { vec![up.clone(), lo.clone()] });
            d.derives = vec![Tr::Debug, Tr::Clone, Tr::Copy, Tr::PartialEq, Tr::TryFrom, Tr::Into, Tr::FromStr, Tr::Display];
            out.push(Subj { decl: d, tag: format!("int/{}/contradictory-expression-bounds", t.name()), serde_full: false });
        }
    }
    // const_fn without validation: `const fn new` (sanitizer only) and plain wrapping
    for t in [IntTy::I32, IntTy::U8] {
        for (cf, with_san) in [(true, true), (false, true), (true, false)] {
            let mut d = Decl::new("X", Inner::Int(t));
            if with_san {
                d.sans = vec![San::With(UFn::CClamp, Spell::Path)];
            }
            d.const_fn = cf;
            d.derives = vec![Tr::Debug, Tr::Clone, Tr::Copy, Tr::PartialEq, Tr::From, Tr::Into, Tr::FromStr, Tr::Display];
            out.push(Subj { decl: d, tag: format!("int/{}/const_fn={cf}/novalidation", t.name()), serde_full: false });
        }
    }
    // a PARTIAL predicate (panics at 0) guarded by an earlier rule that excludes 0: evaluation order and
    // early return are observable as "no panic" (C01) and as the variant reported (C07)
    for (i, t) in [IntTy::U8, IntTy::I16, IntTy::I8, IntTy::U32].into_iter().enumerate() {
        if tier == Tier::Quick && i >= 2 {
            break;
        }
        let guards: Vec<Vec<Vd>> = if t.signed() {
            vec![vec![Vd::Greater(Bound::lit(t.val(0).unwrap()))], vec![Vd::Less(Bound::lit(t.val(0).unwrap()))], vec![Vd::GreaterOrEqual(Bound::lit(t.val(1).unwrap())), Vd::LessOrEqual(Bound::lit(t.val(100).unwrap()))]]
        } else {
            vec![vec![Vd::Greater(Bound::lit(t.val(0).unwrap()))], vec![Vd::GreaterOrEqual(Bound::lit(t.val(1).unwrap())), Vd::Less(Bound::lit(t.val(100).unwrap()))]]
        };
        for (gi, g) in guards.into_iter().enumerate() {
            let mut vs = g;
            vs.push(Vd::Predicate(UFn::InvSmall, [Spell::Path, Spell::Closure, Spell::ClosureTyped][gi % 3]));
            let mut d = Decl::new("X", Inner::Int(t));
            d.sans = if gi == 1 { vec![San::With(UFn::ToEven, Spell::Path)] } else { vec![] };
            d.validation = Validation::Std(vs);
            d.default = if gi == 0 { Some(t.val(0).unwrap()) } else { None };
            d.derives = max_derives(&d, false);
            out.push(Subj { decl: d, tag: format!("int/{}/partial-predicate", t.name()), serde_full: gi == 0 });
        }
    }
    // Arbitrary-focused: narrow ranges, extremes, expression forms (C09 / C14)
    arbitrary_int_subjects(tier, out);
}

/// bounds that mention a user constant called `MAX` / `MIN` (hygiene of the generated Arbitrary code)
fn shadow_name_subjects(tier: Tier, out: &mut Vec<Subj>) {
    let tys: Vec<IntTy> = if tier == Tier::Quick { vec![IntTy::U8, IntTy::I16] } else { vec![IntTy::U8, IntTy::I8, IntTy::I16, IntTy::U16, IntTy::I64, IntTy::U128] };
    for t in tys {
        let v = |x: i128| t.val(x).unwrap();
        let near_max = sub_v(&t.max(), 300.min(if t.bits() == 8 { 100 } else { 300 }));
        let shapes: Vec<Vec<Vd>> = vec![
            vec![Vd::GreaterOrEqual(Bound { v: near_max.clone(), form: Form::ShadowMax })],
            vec![Vd::Greater(Bound { v: v(10), form: Form::ShadowMax }), Vd::Less(Bound { v: v(90), form: Form::Lit })],
            vec![Vd::LessOrEqual(Bound { v: add_v(&t.min(), 50), form: Form::ShadowMin })],
            vec![Vd::Less(Bound { v: v(50), form: Form::ShadowMin }), Vd::GreaterOrEqual(Bound { v: v(5), form: Form::ShadowMax })],
            vec![Vd::GreaterOrEqual(Bound { v: v(7), form: Form::ShadowMin }), Vd::LessOrEqual(Bound { v: v(70), form: Form::ShadowMax })],
        ];
        for vs in shapes {
            let mut d = Decl::new("X", Inner::Int(t));
            d.validation = Validation::Std(vs);
            d.derives = vec![Tr::Debug, Tr::Clone, Tr::Copy, Tr::PartialEq, Tr::Eq, Tr::PartialOrd, Tr::Ord, Tr::Arbitrary, Tr::TryFrom, Tr::Into, Tr::Display];
            out.push(Subj { decl: d, tag: format!("int/{}/arb-shadow-names", t.name()), serde_full: false });
        }
    }
}

/// ranges at the far ends of the wide and pointer-sized types (a generator that draws through a narrower or
/// differently signed type cannot reach them)
fn far_end_subjects(_tier: Tier, out: &mut Vec<Subj>) {
    for t in [IntTy::Usize, IntTy::Isize, IntTy::U64, IntTy::I64, IntTy::U128, IntTy::I128] {
        let mut shapes: Vec<Vec<Vd>> = vec![
            vec![Vd::Greater(Bound::lit(sub_v(&t.max(), 16)))],
            vec![Vd::GreaterOrEqual(Bound { v: sub_v(&t.max(), 300), form: Form::Const }), Vd::LessOrEqual(Bound { v: t.max(), form: Form::TyExtreme })],
        ];
        if t.signed() {
            shapes.push(vec![Vd::Less(Bound::lit(add_v(&t.min(), 16)))]);
            shapes.push(vec![Vd::GreaterOrEqual(Bound { v: t.min(), form: Form::TyExtreme }), Vd::LessOrEqual(Bound { v: add_v(&t.min(), 300), form: Form::Const })]);
        }
        for vs in shapes {
            let mut d = Decl::new("X", Inner::Int(t));
            d.validation = Validation::Std(vs);
            d.derives = vec![Tr::Debug, Tr::Clone, Tr::Copy, Tr::PartialEq, Tr::Eq, Tr::PartialOrd, Tr::Ord, Tr::Arbitrary, Tr::TryFrom, Tr::Into, Tr::Display];
            out.push(Subj { decl: d, tag: format!("int/{}/arb-far-end", t.name()), serde_full: false });
        }
    }
}

pub fn arbitrary_int_subjects(tier: Tier, out: &mut Vec<Subj>) {
    shadow_name_subjects(tier, out);
    far_end_subjects(tier, out);
    let tys: Vec<IntTy> = match tier {
        Tier::Quick => vec![IntTy::U8, IntTy::I16, IntTy::I32, IntTy::U64, IntTy::Usize, IntTy::Isize],
        Tier::Thorough => ALL_INT.to_vec(),
    };
    let forms = [Form::Lit, Form::Const, Form::Shl, Form::Plus1, Form::Paren, Form::Minus1, Form::AsCast, Form::Mul2, Form::FnCall, Form::ModPath, Form::Block, Form::NotConst, Form::Shr];
    let mut n = 0usize;
    for t in tys {
        let v = |x: i128| t.val(x).unwrap();
        // (lowerkind, lo, upperkind, up): widths 1, 2, 255, 256, 257, 65536 and extremes
        let mut shapes: Vec<(Option<VK>, Val, Option<VK>, Val)> = vec![
            (Some(VK::GE), v(16), Some(VK::LE), v(16)),
            (Some(VK::G), v(16), Some(VK::L), v(18)),
            (Some(VK::GE), v(16), Some(VK::L), v(18)),
            (Some(VK::G), v(0), Some(VK::LE), v(32)),
            (Some(VK::G), v(16), Some(VK::LE), v(17)),
            (Some(VK::GE), v(16), Some(VK::L), v(17)),
            (None, v(0), Some(VK::L), v(16)),
            (None, v(0), Some(VK::LE), v(16)),
            (Some(VK::G), v(100), None, v(0)),
            (Some(VK::GE), v(100), None, v(0)),
            (Some(VK::GE), t.min(), Some(VK::LE), t.max()),
        ];
        if t.bits() >= 16 {
            shapes.push((Some(VK::GE), v(0), Some(VK::L), v(256)));
            shapes.push((Some(VK::G), v(0), Some(VK::L), v(256)));
            shapes.push((Some(VK::GE), v(0), Some(VK::LE), v(256)));
            shapes.push((Some(VK::GE), v(1000), Some(VK::L), v(1000 + 4096)));
        }
        if t.bits() >= 32 {
            shapes.push((Some(VK::GE), v(0), Some(VK::L), v(65536)));
            shapes.push((Some(VK::GE), v(-0 + 70000), Some(VK::LE), v(70000 + 65535)));
        }
        if t.signed() {
            shapes.push((Some(VK::G), v(-3), Some(VK::L), v(3)));
            shapes.push((Some(VK::GE), v(-128), Some(VK::LE), v(-100)));
            shapes.push((None, v(0), Some(VK::L), add_v(&t.min(), 16)));
        } else {
            shapes.push((Some(VK::G), sub_v(&t.max(), 16), None, v(0)));
        }
        for (si, (lk, lo, uk, up)) in shapes.into_iter().enumerate() {
            if tier == Tier::Quick && (si + n) % 2 != 0 {
                continue;
            }
            let form = if tier == Tier::Quick { forms[(n + si) % forms.len()] } else { forms[(n + si) % forms.len()] };
            let mut vs = vec![];
            // written order alternates
            let lower = lk.map(|k| if k == VK::G { Vd::Greater(Bound { v: lo.clone(), form }) } else { Vd::GreaterOrEqual(Bound { v: lo.clone(), form }) });
            let upper = uk.map(|k| if k == VK::L { Vd::Less(Bound { v: up.clone(), form }) } else { Vd::LessOrEqual(Bound { v: up.clone(), form }) });
            if si % 2 == 0 {
                vs.extend(lower);
                vs.extend(upper);
            } else {
                vs.extend(upper);
                vs.extend(lower);
            }
            let mut d = Decl::new("X", Inner::Int(t));
            d.validation = Validation::Std(vs);
            d.derives = vec![Tr::Debug, Tr::Clone, Tr::Copy, Tr::PartialEq, Tr::Eq, Tr::PartialOrd, Tr::Ord, Tr::Arbitrary, Tr::TryFrom, Tr::Into, Tr::Display];
            // forms that cannot denote the value fall back to Const
            if crate::render::render(&d).is_none() {
                if let Validation::Std(vs) = &mut d.validation {
                    for vd in vs.iter_mut() {
                        if let Some(b) = vd.bound_mut() {
                            b.form = Form::Const;
                        }
                    }
                }
            }
            out.push(Subj { decl: d, tag: format!("int/{}/arb", t.name()), serde_full: false });
        }
        n += 1;
    }
}
fn add_v(a: &Val, k: i128) -> Val {
    match a {
        Val::I(x) => Val::I(x + k),
        Val::U(x) => Val::U((*x as i128 + k) as u128),
        _ => unreachable!(),
    }
}
fn sub_v(a: &Val, k: i128) -> Val {
    match a {
        Val::I(x) => Val::I(x - k),
        Val::U(x) => Val::U(x - k as u128),
        _ => unreachable!(),
    }
}

fn mk_float_validators(vl: &[VK], lo: Val, up: Val, pred: (UFn, Spell), form: Form) -> Option<Vec<Vd>> {
    let lk = vl.iter().find(|k| matches!(k, VK::G | VK::GE)).cloned();
    let uk = vl.iter().find(|k| matches!(k, VK::L | VK::LE)).cloned();
    if !bounds_ok(lk, &lo, uk, &up) {
        return None;
    }
    Some(
        vl.iter()
            .map(|k| match k {
                VK::G => Vd::Greater(Bound { v: lo.clone(), form }),
                VK::GE => Vd::GreaterOrEqual(Bound { v: lo.clone(), form }),
                VK::L => Vd::Less(Bound { v: up.clone(), form }),
                VK::LE => Vd::LessOrEqual(Bound { v: up.clone(), form }),
                VK::Fin => Vd::Finite,
                VK::Pred => Vd::Predicate(pred.0, pred.1),
                _ => unreachable!(),
            })
            .collect(),
    )
}

pub fn float_subjects(tier: Tier, out: &mut Vec<Subj>) {
    let vls = float_vlists();
    let sans: [Vec<San>; 5] = [vec![], vec![San::With(UFn::Clamp01, Spell::Path)], vec![], vec![San::With(UFn::AbsF, Spell::Closure)], vec![San::With(UFn::NanToZero, Spell::ClosureMut)]];
    let preds = [(UFn::IsIntegral, Spell::Path), (UFn::IsIntegral, Spell::Closure), (UFn::IsIntegral, Spell::ClosureTyped)];
    let p32 = f32_positions();
    let p64 = f64_positions();
    let mut n = 0usize;
    let push = |is32: bool, vl: &[VK], pi: usize, si: usize, out: &mut Vec<Subj>, n: &mut usize| {
        for k in 0..p32.len() {
            let idx = (pi + k) % p32.len();
            let (lo, up) = if is32 { (Val::f32(p32[idx].0), Val::f32(p32[idx].1)) } else { (Val::f64(p64[idx].0), Val::f64(p64[idx].1)) };
            let form = if *n % 4 == 3 { Form::Const } else { Form::Lit };
            if let Some(vs) = mk_float_validators(vl, lo.clone(), up.clone(), preds[*n % preds.len()], form) {
                let mut d = Decl::new("X", if is32 { Inner::F32 } else { Inner::F64 });
                d.sans = sans[si % sans.len()].clone();
                d.validation = Validation::Std(vs);
                if *n % 3 == 0 {
                    d.default = Some(match *n % 9 {
                        0 => lo.clone(),
                        3 => up.clone(),
                        _ => {
                            if is32 {
                                Val::f32(0.5)
                            } else {
                                Val::f64(0.5)
                            }
                        }
                    });
                }
                d.derives = max_derives(&d, false);
                out.push(Subj { decl: d, tag: format!("float/{}/{:?}", if is32 { "f32" } else { "f64" }, vl), serde_full: *n % 8 == 0 });
                *n += 1;
                return;
            }
        }
    };
    match tier {
        Tier::Quick => {
            for (i, vl) in vls.iter().enumerate() {
                if i % 3 == 0 {
                    push((i / 3) % 2 == 0, vl, i, i, out, &mut n);
                }
            }
        }
        Tier::Thorough => {
            for (i, vl) in vls.iter().enumerate() {
                push(true, vl, i, i, out, &mut n);
                push(false, vl, i + 5, i + 1, out, &mut n);
            }
        }
    }
    // no validation
    for (k, is32) in [true, false].iter().enumerate() {
        for (si, s) in sans.iter().enumerate() {
            if tier == Tier::Quick && (si + k) % 2 != 0 {
                continue;
            }
            let mut d = Decl::new("X", if *is32 { Inner::F32 } else { Inner::F64 });
            d.sans = s.clone();
            d.default = if si % 2 == 0 { Some(if *is32 { Val::f32(-3.5) } else { Val::f64(-3.5) }) } else { None };
            d.derives = max_derives(&d, (si + k) % 2 == 0);
            out.push(Subj { decl: d, tag: "float/novalidation".into(), serde_full: si == 0 });
        }
    }
    // custom validation
    for is32 in [true, false] {
        let mut d = Decl::new("X", if is32 { Inner::F32 } else { Inner::F64 });
        d.validation = Validation::Custom(UFn::CheckFloat, Spell::Path);
        d.default = Some(if is32 { Val::f32(f32::NAN) } else { Val::f64(1.0) });
        d.derives = max_derives(&d, false);
        out.push(Subj { decl: d, tag: "float/custom".into(), serde_full: false });
    }
    // const_fn twins
    for cf in [false, true] {
        let mut d = Decl::new("X", Inner::F64);
        d.sans = vec![San::With(UFn::CClamp01, Spell::Path)];
        d.validation = Validation::Std(vec![Vd::Finite, Vd::Greater(Bound::lit(Val::f64(0.25)))]);
        d.const_fn = cf;
        d.derives = vec![Tr::Debug, Tr::Clone, Tr::Copy, Tr::PartialEq, Tr::Eq, Tr::PartialOrd, Tr::Ord, Tr::TryFrom, Tr::Into, Tr::FromStr, Tr::Display, Tr::Deserialize, Tr::Serialize];
        out.push(Subj { decl: d, tag: format!("float/f64/const_fn={cf}"), serde_full: false });
    }
    for cf in [false, true] {
        for bounded in [false, true] {
            let mut d = Decl::new("X", Inner::F32);
            let mut vs = vec![Vd::Finite];
            if bounded {
                vs.insert(0, Vd::GreaterOrEqual(Bound::lit(Val::f32(-1.0))));
                vs.push(Vd::Less(Bound { v: Val::f32(1.0), form: Form::Const }));
            }
            d.validation = Validation::Std(vs);
            d.const_fn = cf;
            d.derives = vec![Tr::Debug, Tr::Clone, Tr::Copy, Tr::PartialEq, Tr::Eq, Tr::PartialOrd, Tr::Ord, Tr::TryFrom, Tr::Into, Tr::FromStr, Tr::Display];
            out.push(Subj { decl: d, tag: format!("float/f32/const_fn={cf}/finite"), serde_full: false });
        }
    }
    for order in 0..2 {
        let lo = Vd::Greater(Bound { v: Val::f64(10.0), form: Form::Const });
        let up = Vd::LessOrEqual(Bound { v: Val::f64(-10.0), form: Form::Const });
        let mut d = Decl::new("X", Inner::F64);
        d.validation = Validation::Std(if order == 0 { vec![Vd::Finite, lo.clone(), up.clone()] } else { vec![up.clone(), lo.clone(), Vd::Finite] });
        d.derives = vec![Tr::Debug, Tr::Clone, Tr::Copy, Tr::PartialEq, Tr::TryFrom, Tr::Into, Tr::FromStr, Tr::Display];
        out.push(Subj { decl: d, tag: "float/f64/contradictory-expression-bounds".into(), serde_full: false });
    }
    arbitrary_float_subjects(tier, out);
}

pub fn arbitrary_float_subjects(tier: Tier, out: &mut Vec<Subj>) {
    // finite x lower kind x upper kind x magnitude
    // the last three pairs put a bound on a zero of either sign (ulp stepping across zero)
    let mags32: Vec<(f32, f32)> = vec![(0.0, 1.0), (-1.0, 1.0), (0.1, 0.2), (63.0, 64.0), (64.0, 100.0), (100.0, 1e10), (-1e10, -100.0), (1e38, 3e38), (-3e38, 3e38), (1.0, 1.0000001), (16777216.0, 16777220.0), (-1.0, 0.0), (-0.0, 1.0), (-1.0, -0.0)];
    let zero_bound = |mi: usize| mi >= 11;
    let kinds: [(Option<VK>, Option<VK>); 8] = [(Some(VK::G), Some(VK::L)), (Some(VK::GE), Some(VK::L)), (Some(VK::G), Some(VK::LE)), (Some(VK::GE), Some(VK::LE)), (Some(VK::G), None), (Some(VK::GE), None), (None, Some(VK::L)), (None, Some(VK::LE))];
    let mut n = 0usize;
    for is32 in [true, false] {
        for (mi, (a, b)) in mags32.iter().enumerate() {
            for (ki, (lk, uk)) in kinds.iter().enumerate() {
                for fin in [false, true] {
                    let take = match tier {
                        Tier::Quick => (mi + ki + fin as usize + is32 as usize) % 9 == 0 || (zero_bound(mi) && !fin && (ki + is32 as usize) % 2 == 0),
                        Tier::Thorough => true,
                    };
                    if !take {
                        continue;
                    }
                    let (lo, up) = if is32 { (Val::f32(*a), Val::f32(*b)) } else { (Val::f64(*a as f64), Val::f64(*b as f64)) };
                    let form = if n % 3 == 1 { Form::Const } else { Form::Lit };
                    let mut vs = vec![];
                    if fin {
                        vs.push(Vd::Finite);
                    }
                    if let Some(k) = lk {
                        vs.push(if *k == VK::G { Vd::Greater(Bound { v: lo.clone(), form }) } else { Vd::GreaterOrEqual(Bound { v: lo.clone(), form }) });
                    }
                    if let Some(k) = uk {
                        vs.push(if *k == VK::L { Vd::Less(Bound { v: up.clone(), form }) } else { Vd::LessOrEqual(Bound { v: up.clone(), form }) });
                    }
                    if n % 2 == 1 {
                        vs.reverse();
                    }
                    let mut d = Decl::new("X", if is32 { Inner::F32 } else { Inner::F64 });
                    d.validation = Validation::Std(vs);
                    d.derives = vec![Tr::Debug, Tr::Clone, Tr::Copy, Tr::PartialEq, Tr::PartialOrd, Tr::Arbitrary, Tr::TryFrom, Tr::Into, Tr::Display];
                    if fin {
                        d.derives.extend([Tr::Eq, Tr::Ord]);
                    }
                    out.push(Subj { decl: d, tag: "float/arb".into(), serde_full: false });
                    n += 1;
                }
            }
        }
        // bounds that are themselves infinite (written as a constant), with and without `finite`: with `finite` the
        // valid set is non-empty but excludes the bound itself
        let inf = |neg: bool| if is32 { Val::f32(if neg { f32::NEG_INFINITY } else { f32::INFINITY }) } else { Val::f64(if neg { f64::NEG_INFINITY } else { f64::INFINITY }) };
        let one = if is32 { Val::f32(1.0) } else { Val::f64(1.0) };
        let inf_shapes: Vec<Vec<Vd>> = vec![
            vec![Vd::Finite, Vd::LessOrEqual(Bound { v: inf(false), form: Form::Const })],
            vec![Vd::GreaterOrEqual(Bound { v: inf(true), form: Form::Const }), Vd::Finite],
            vec![Vd::Finite, Vd::GreaterOrEqual(Bound { v: one.clone(), form: Form::Lit }), Vd::LessOrEqual(Bound { v: inf(false), form: Form::TyExtreme })],
            vec![Vd::Less(Bound { v: inf(false), form: Form::Const }), Vd::Greater(Bound { v: inf(true), form: Form::Const })],
            vec![Vd::LessOrEqual(Bound { v: inf(false), form: Form::Const })],
        ];
        for (k, vs) in inf_shapes.into_iter().enumerate() {
            if tier == Tier::Quick && (k + is32 as usize) % 2 == 1 && k >= 3 {
                continue;
            }
            let fin = vs.iter().any(|v| matches!(v, Vd::Finite));
            let mut d = Decl::new("X", if is32 { Inner::F32 } else { Inner::F64 });
            d.validation = Validation::Std(vs);
            d.derives = vec![Tr::Debug, Tr::Clone, Tr::Copy, Tr::PartialEq, Tr::PartialOrd, Tr::Arbitrary, Tr::TryFrom, Tr::Into, Tr::Display, Tr::FromStr];
            if fin {
                d.derives.extend([Tr::Eq, Tr::Ord]);
            }
            out.push(Subj { decl: d, tag: "float/arb/infinite-bound".into(), serde_full: false });
        }
        // finite only / no bounds
        let mut d = Decl::new("X", if is32 { Inner::F32 } else { Inner::F64 });
        d.validation = Validation::Std(vec![Vd::Finite]);
        d.derives = vec![Tr::Debug, Tr::Clone, Tr::Copy, Tr::PartialEq, Tr::Eq, Tr::PartialOrd, Tr::Ord, Tr::Arbitrary, Tr::TryFrom, Tr::Into, Tr::Display, Tr::FromStr, Tr::Serialize, Tr::Deserialize];
        out.push(Subj { decl: d, tag: "float/arb/finite".into(), serde_full: true });
    }
}

fn mk_string_validators(vl: &[VK], min: u128, max: u128, n: usize) -> Vec<Vd> {
    vl.iter()
        .map(|k| match k {
            VK::NotEmpty => Vd::NotEmpty,
            VK::Min => Vd::LenCharMin(Bound { v: Val::U(min), form: if n % 5 == 4 { Form::Const } else { Form::Lit } }),
            VK::Max => Vd::LenCharMax(Bound { v: Val::U(max), form: if n % 5 == 3 { Form::Const } else { Form::Lit } }),
            VK::Pred => {
                if n % 2 == 0 {
                    Vd::Predicate(UFn::NoX, Spell::Path)
                } else {
                    Vd::Predicate(UFn::HasA, Spell::Closure)
                }
            }
            VK::Regex => {
                if n % 2 == 0 {
                    Vd::Regex(Re::Lower, ReSpell::Lit)
                } else {
                    Vd::Regex(Re::Digits, ReSpell::StaticPath)
                }
            }
            _ => unreachable!(),
        })
        .collect()
}

pub fn string_subjects(tier: Tier, out: &mut Vec<Subj>) {
    let sls = string_sanlists();
    let vls = string_vlists();
    let lens: [(u128, u128); 7] = [(1, 2), (2, 3), (0, 1), (1, 1), (3, 6), (0, 0), (2, 2)];
    let mut n = 0usize;
    let push = |sl: &Vec<San>, vl: &Vec<VK>, out: &mut Vec<Subj>, n: &mut usize| {
        let (mn, mx) = lens[*n % lens.len()];
        let mut d = Decl::new("X", Inner::Str);
        d.sans = sl.clone();
        d.validation = Validation::Std(mk_string_validators(vl, mn, mx, *n));
        if *n % 3 == 0 {
            d.default = Some(Val::s(["a", "  Ab ", "", "ß", "12"][*n % 5]));
        }
        d.derives = max_derives(&d, false);
        out.push(Subj { decl: d, tag: format!("string/{}san/{:?}", sl.len(), vl), serde_full: *n % 10 == 0 });
        *n += 1;
    };
    match tier {
        Tier::Quick => {
            // every sanitizer list twice, every validator list at least once
            for (i, sl) in sls.iter().enumerate() {
                push(sl, &vls[(i * 2) % vls.len()], out, &mut n);
                push(sl, &vls[(i * 2 + 1 + i / 17) % vls.len()], out, &mut n);
            }
            // every validator list also with NO sanitizer (the stored value is the raw input: conversions
            // must not "optimise" on the raw text) and once more with a rotating non-empty sanitizer list
            for (j, vl) in vls.iter().enumerate() {
                push(&sls[0], vl, out, &mut n);
                if j % 2 == 0 {
                    push(&sls[1 + (j * 5 + 3) % (sls.len() - 1)], vl, out, &mut n);
                }
            }
        }
        Tier::Thorough => {
            for sl in &sls {
                for vl in &vls {
                    push(sl, vl, out, &mut n);
                }
            }
        }
    }
    // no validation (new / From<&str> / From<String>)
    for (i, sl) in sls.iter().enumerate() {
        if tier == Tier::Quick && i % 3 != 0 {
            continue;
        }
        let mut d = Decl::new("X", Inner::Str);
        d.sans = sl.clone();
        d.default = if i % 2 == 0 { Some(Val::s(" İx ")) } else { None };
        d.derives = max_derives(&d, i % 2 == 0);
        out.push(Subj { decl: d, tag: format!("string/{}san/novalidation", sl.len()), serde_full: i == 0 });
    }
    // a custom sanitizer for which the empty string is not a fixed point
    for (i, sl) in [vec![San::With(UFn::OrAnon, Spell::Path)], vec![San::Trim, San::With(UFn::OrAnon, Spell::Closure)], vec![San::With(UFn::OrAnon, Spell::ClosureTyped), San::Upper]].iter().enumerate() {
        for with_validation in [false, true] {
            let mut d = Decl::new("X", Inner::Str);
            d.sans = sl.clone();
            if with_validation {
                d.validation = Validation::Std(vec![Vd::LenCharMax(Bound::lit(Val::U(4)))]);
            }
            d.default = if i % 2 == 0 { Some(Val::s("")) } else { None };
            d.derives = max_derives(&d, true);
            out.push(Subj { decl: d, tag: "string/or_anon".into(), serde_full: false });
        }
    }
    // large length bounds: a character counter narrowed to u8/u16 (or a byte/char confusion) wraps here
    for (k, (mn, mx)) in [(None, Some(255u128)), (None, Some(256)), (Some(256u128), Some(257)), (Some(255), None), (Some(65535), Some(65536)), (Some(65536), None)].into_iter().enumerate() {
        let mut vs = vec![];
        if let Some(m) = mn {
            vs.push(Vd::LenCharMin(Bound::lit(Val::U(m))));
        }
        if let Some(m) = mx {
            vs.push(Vd::LenCharMax(Bound::lit(Val::U(m))));
        }
        let mut d = Decl::new("X", Inner::Str);
        d.sans = if k % 2 == 0 { vec![San::Trim] } else { vec![] };
        d.validation = Validation::Std(vs);
        d.derives = max_derives(&d, false);
        d.derives.retain(|t| !matches!(t, Tr::Arbitrary));
        out.push(Subj { decl: d, tag: "string/large-len-bound".into(), serde_full: false });
    }
    // a PARTIAL predicate (panics on "") guarded by an earlier rule that excludes the empty string
    {
        let guards: Vec<Vec<Vd>> = vec![
            vec![Vd::NotEmpty],
            vec![Vd::LenCharMin(Bound::lit(Val::U(1)))],
            vec![Vd::LenCharMax(Bound::lit(Val::U(3))), Vd::NotEmpty],
            vec![Vd::LenCharMin(Bound::lit(Val::U(2))), Vd::Regex(Re::Lower, ReSpell::Lit)],
        ];
        let sls: Vec<Vec<San>> = vec![vec![], vec![San::Trim], vec![San::With(UFn::StripX, Spell::Path), San::Trim], vec![San::Trim, San::Lower]];
        for (gi, g) in guards.iter().enumerate() {
            for (si, sl) in sls.iter().enumerate() {
                if tier == Tier::Quick && (gi + si) % 2 == 1 {
                    continue;
                }
                let mut vs = g.clone();
                vs.push(Vd::Predicate(UFn::FirstNotX, [Spell::Path, Spell::Closure, Spell::ClosureTyped][(gi + si) % 3]));
                let mut d = Decl::new("X", Inner::Str);
                d.sans = sl.clone();
                d.validation = Validation::Std(vs);
                d.default = if si == 1 { Some(Val::s("  ")) } else { None };
                d.derives = max_derives(&d, false);
                out.push(Subj { decl: d, tag: "string/partial-predicate".into(), serde_full: gi == 0 && si == 0 });
            }
        }
    }
    // custom validation
    for (i, sl) in [vec![], vec![San::Trim], vec![San::With(UFn::StripX, Spell::Closure)], vec![San::With(UFn::Dup, Spell::Path), San::Trim], vec![San::With(UFn::Truncate3, Spell::ClosureTyped)]].iter().enumerate() {
        let mut d = Decl::new("X", Inner::Str);
        d.sans = sl.clone();
        d.validation = Validation::Custom(UFn::CheckStr, Spell::Path);
        d.default = if i == 1 { Some(Val::s(" ")) } else { None };
        d.derives = max_derives(&d, false);
        out.push(Subj { decl: d, tag: "string/custom".into(), serde_full: false });
    }
    arbitrary_string_subjects(tier, out);
}

pub fn arbitrary_string_subjects(tier: Tier, out: &mut Vec<Subj>) {
    // sanitizer lists without `with` x {not_empty, len_char_min, len_char_max} orders x (min,max)
    let sls: Vec<Vec<San>> = vec![vec![], vec![San::Trim], vec![San::Lower], vec![San::Upper], vec![San::Trim, San::Lower], vec![San::Upper, San::Trim]];
    let shapes: Vec<Vec<VK>> = vec![vec![VK::NotEmpty], vec![VK::Min], vec![VK::Max], vec![VK::Min, VK::Max], vec![VK::Max, VK::Min], vec![VK::NotEmpty, VK::Max], vec![VK::NotEmpty, VK::Min], vec![VK::Min, VK::NotEmpty], vec![VK::NotEmpty, VK::Min, VK::Max], vec![VK::Max, VK::Min, VK::NotEmpty]];
    let lens: [(u128, u128); 8] = [(0, 1), (1, 1), (2, 3), (5, 5), (0, 16), (3, 20), (1, 2), (0, 0)];
    let mut n = 0usize;
    for (si, sl) in sls.iter().enumerate() {
        for (hi, sh) in shapes.iter().enumerate() {
            for (li, (mn, mx)) in lens.iter().enumerate() {
                let take = match tier {
                    Tier::Quick => (si + hi * 3 + li) % 17 == 0,
                    Tier::Thorough => (si + hi + li) % 2 == 0,
                };
                if !take {
                    continue;
                }
                // skip declarations whose valid set is empty: not_empty with max 0
                if sh.contains(&VK::NotEmpty) && sh.contains(&VK::Max) && *mx == 0 {
                    continue;
                }
                let mut d = Decl::new("X", Inner::Str);
                d.sans = sl.clone();
                d.validation = Validation::Std(mk_string_validators(sh, *mn, *mx, if n % 4 == 0 { 3 } else { 0 }));
                d.derives = vec![Tr::Debug, Tr::Clone, Tr::PartialEq, Tr::Eq, Tr::Arbitrary, Tr::TryFrom, Tr::Into, Tr::Display, Tr::AsRef];
                out.push(Subj { decl: d, tag: "string/arb".into(), serde_full: false });
                n += 1;
            }
        }
    }
    // length limits written as expressions whose top-level operator binds looser than `+` (the generator derives a
    // default upper limit from the lower one)
    for (k, (mn_form, with_max)) in [(Form::Shr, false), (Form::Shl, true), (Form::Shr, true), (Form::Minus1, false)].into_iter().enumerate() {
        let mut vs = vec![Vd::LenCharMin(Bound { v: Val::U(2), form: mn_form })];
        if with_max {
            vs.push(Vd::LenCharMax(Bound { v: Val::U(4), form: if k % 2 == 0 { Form::Shr } else { Form::Shl } }));
        }
        let mut d = Decl::new("X", Inner::Str);
        d.sans = if k % 2 == 0 { vec![] } else { vec![San::Trim] };
        d.validation = Validation::Std(vs);
        d.derives = vec![Tr::Debug, Tr::Clone, Tr::PartialEq, Tr::Eq, Tr::Arbitrary, Tr::TryFrom, Tr::Into, Tr::Display, Tr::AsRef];
        out.push(Subj { decl: d, tag: "string/arb/expression-limits".into(), serde_full: false });
    }
    // the lower length limits the generator has to merge: `not_empty` next to a literal / constant
    // `len_char_min` of 0, 1, 2 (in both written orders), with and without an upper limit and `trim`
    let mut k = 0usize;
    for mn in [0u128, 1, 2] {
        for form in [Form::Const, Form::Lit] {
            for (with_max, trim, ne_first) in [(false, false, true), (true, true, false), (true, false, true)] {
                k += 1;
                if tier == Tier::Quick && form == Form::Lit && k % 2 == 0 {
                    continue;
                }
                let mut vs = vec![Vd::LenCharMin(Bound { v: Val::U(mn), form })];
                if ne_first {
                    vs.insert(0, Vd::NotEmpty);
                } else {
                    vs.push(Vd::NotEmpty);
                }
                if with_max {
                    vs.push(Vd::LenCharMax(Bound { v: Val::U(3), form: if form == Form::Const { Form::Lit } else { Form::Const } }));
                }
                let mut d = Decl::new("X", Inner::Str);
                d.sans = if trim { vec![San::Trim] } else { vec![] };
                d.validation = Validation::Std(vs);
                d.derives = vec![Tr::Debug, Tr::Clone, Tr::PartialEq, Tr::Eq, Tr::Arbitrary, Tr::TryFrom, Tr::Into, Tr::Display, Tr::AsRef];
                out.push(Subj { decl: d, tag: "string/arb/lower-limits".into(), serde_full: false });
            }
        }
    }
}

pub fn any_subjects(_tier: Tier, out: &mut Vec<Subj>) {
    let mut n = 0;
    for inner in [Inner::VecI64, Inner::GenVec] {
        let shapes: Vec<(Vec<San>, Validation)> = vec![
            (vec![], Validation::None),
            (vec![San::With(UFn::SortDedup, Spell::Path)], Validation::None),
            (vec![], Validation::Std(vec![Vd::Predicate(UFn::VecNonEmpty, Spell::Path)])),
            (vec![San::With(UFn::SortDedup, Spell::Closure)], Validation::Std(vec![Vd::Predicate(UFn::VecShort, Spell::Closure)])),
            (vec![San::With(UFn::SortDedup, Spell::ClosureMut)], Validation::Custom(UFn::CheckVec, Spell::Path)),
            (vec![San::With(UFn::SortDedup, Spell::ClosureTyped)], Validation::Std(vec![Vd::Predicate(UFn::VecNonEmpty, Spell::ClosureTyped)])),
        ];
        for (sans, val) in shapes {
            let mut d = Decl::new("X", inner);
            d.sans = sans;
            d.validation = val;
            d.default = if n % 2 == 0 && inner == Inner::VecI64 { Some(Val::V(vec![2, 1, 2])) } else { None };
            d.derives = max_derives(&d, n % 3 == 0);
            if inner == Inner::GenVec {
                // `Into` and `Arbitrary` on a generic newtype WITH trait bounds do not compile on the
                // pinned tree (see C08 findings); the runtime pool only holds declarations that build
                d.derives.retain(|t| !matches!(t, Tr::Arbitrary | Tr::Into));
            }
            out.push(Subj { decl: d, tag: format!("any/{:?}", inner), serde_full: n == 0 });
            n += 1;
        }
    }
    let pshapes: Vec<(Vec<San>, Validation, bool)> = vec![
        (vec![], Validation::None, false),
        (vec![San::With(UFn::PointAbsY, Spell::Path)], Validation::None, false),
        (vec![], Validation::Std(vec![Vd::Predicate(UFn::PointOnDiag, Spell::Path)]), false),
        (vec![San::With(UFn::PointAbsY, Spell::Closure)], Validation::Std(vec![Vd::Predicate(UFn::PointOnDiag, Spell::Closure)]), false),
        (vec![], Validation::Std(vec![Vd::Predicate(UFn::CPointOnDiag, Spell::Path)]), true),
        (vec![], Validation::Std(vec![Vd::Predicate(UFn::CPointOnDiag, Spell::Path)]), false),
    ];
    for (sans, val, cf) in pshapes {
        let mut d = Decl::new("X", Inner::Point);
        d.sans = sans;
        d.validation = val;
        d.const_fn = cf;
        d.default = if n % 2 == 0 { Some(Val::P(3, 3)) } else { None };
        d.derives = max_derives(&d, n % 3 == 0);
        out.push(Subj { decl: d, tag: "any/Point".into(), serde_full: n % 4 == 0 });
        n += 1;
    }
    // a bare type parameter as inner type (generic FromStr / Display / serde / ParseError<T> code paths)
    for k in 0..2 {
        let mut d = Decl::new("X", Inner::GenT);
        d.derives = max_derives(&d, true);
        if k == 1 {
            d.derives.retain(|t| !matches!(t, Tr::Serialize | Tr::Deserialize | Tr::Hash | Tr::Ord | Tr::Eq));
        }
        out.push(Subj { decl: d, tag: "any/GenT".into(), serde_full: k == 0 });
        n += 1;
    }
    // a user type with non-reflexive equality
    for (sans, val) in [(vec![], Validation::None), (vec![San::With(UFn::FBoxAbs, Spell::Path)], Validation::Std(vec![Vd::Predicate(UFn::FBoxSmall, Spell::Path)])), (vec![], Validation::Std(vec![Vd::Predicate(UFn::FBoxSmall, Spell::Closure)]))] {
        let mut d = Decl::new("X", Inner::FBox);
        d.sans = sans;
        d.validation = val;
        d.derives = max_derives(&d, n % 2 == 0);
        if n % 2 == 1 {
            // inner PartialOrd and Ord disagree (ulib::FBox): both derived on the newtype
            d.derives.extend([Tr::Eq, Tr::Ord]);
        }
        out.push(Subj { decl: d, tag: "any/FBox".into(), serde_full: false });
        n += 1;
    }
    for (sans, val) in [(vec![], Validation::Std(vec![Vd::Predicate(UFn::NoX, Spell::Closure)])), (vec![], Validation::None)] {
        let mut d = Decl::new("X", Inner::Cow);
        d.sans = sans;
        d.validation = val;
        d.derives = max_derives(&d, false);
        out.push(Subj { decl: d, tag: "any/Cow".into(), serde_full: false });
    }
}

/// custom functions spelled as a bare identifier (`use ulib::f; .. with = f`): the shortest token
/// stream a custom-function position can hold
/// custom functions written as closures with an early `return`, followed by further sanitizers / validators
pub fn closure_return_subjects(_tier: Tier, out: &mut Vec<Subj>) {
    let c = Spell::ClosureReturn;
    let shapes: Vec<(Inner, Vec<San>, Validation)> = vec![
        (Inner::Str, vec![San::With(UFn::StripX, c), San::Trim, San::Lower], Validation::None),
        (Inner::Str, vec![San::With(UFn::StripX, c), San::Trim, San::Lower], Validation::Std(vec![Vd::NotEmpty, Vd::LenCharMax(Bound::lit(Val::U(3)))])),
        (Inner::Str, vec![San::Upper, San::With(UFn::OrAnon, c), San::Trim], Validation::Std(vec![Vd::Predicate(UFn::NoX, c), Vd::LenCharMin(Bound::lit(Val::U(1)))])),
        // (custom validation is written as a path: only function paths are documented for `validate(with = ..)`)
        (Inner::Str, vec![San::With(UFn::Truncate3, c), San::Trim], Validation::Custom(UFn::CheckStr, Spell::Path)),
        (Inner::Int(IntTy::I16), vec![San::With(UFn::Clamp10_100, c)], Validation::Std(vec![Vd::Predicate(UFn::IsEven, c), Vd::LessOrEqual(Bound::lit(Val::I(90)))])),
        (Inner::F64, vec![San::With(UFn::AbsF, c)], Validation::Std(vec![Vd::Predicate(UFn::IsIntegral, c), Vd::Less(Bound::lit(Val::f64(9.0)))])),
        (Inner::VecI64, vec![San::With(UFn::SortDedup, c)], Validation::Std(vec![Vd::Predicate(UFn::VecShort, c)])),
    ];
    for (i, (inner, sans, val)) in shapes.into_iter().enumerate() {
        let mut d = Decl::new("X", inner);
        d.sans = sans;
        d.validation = val;
        d.derives = max_derives(&d, i % 2 == 0);
        d.derives.retain(|t| !matches!(t, Tr::Arbitrary));
        out.push(Subj { decl: d, tag: "closure-with-return".into(), serde_full: false });
    }
}

pub fn bare_spelling_subjects(_tier: Tier, out: &mut Vec<Subj>) {
    let b = Spell::Bare;
    let u8v = |x: i128| Bound::lit(IntTy::U8.val(x).unwrap());
    let shapes: Vec<(Inner, Vec<San>, Validation)> = vec![
        (Inner::Int(IntTy::U8), vec![San::With(UFn::Clamp10_100, b)], Validation::Std(vec![Vd::Predicate(UFn::IsEven, b), Vd::LessOrEqual(u8v(90))])),
        (Inner::Int(IntTy::I64), vec![San::With(UFn::ToEven, b)], Validation::Custom(UFn::CheckInt, b)),
        (Inner::Int(IntTy::I32), vec![San::With(UFn::WrapAdd1, b)], Validation::None),
        (Inner::F64, vec![San::With(UFn::AbsF, b)], Validation::Std(vec![Vd::Finite, Vd::Predicate(UFn::IsIntegral, b)])),
        (Inner::F32, vec![San::With(UFn::NanToZero, b)], Validation::Custom(UFn::CheckFloat, b)),
        (Inner::Str, vec![San::Trim, San::With(UFn::StripX, b)], Validation::Std(vec![Vd::NotEmpty, Vd::Predicate(UFn::HasA, b)])),
        (Inner::Str, vec![San::With(UFn::Truncate3, b), San::Lower], Validation::Custom(UFn::CheckStr, b)),
        (Inner::VecI64, vec![San::With(UFn::SortDedup, b)], Validation::Std(vec![Vd::Predicate(UFn::VecShort, b)])),
        (Inner::Point, vec![San::With(UFn::PointAbsY, b)], Validation::Std(vec![Vd::Predicate(UFn::PointOnDiag, b)])),
        (Inner::GenVec, vec![San::With(UFn::SortDedup, b)], Validation::Custom(UFn::CheckVec, b)),
    ];
    for (i, (inner, sans, val)) in shapes.into_iter().enumerate() {
        let mut d = Decl::new("X", inner);
        d.sans = sans;
        d.validation = val;
        d.derives = max_derives(&d, i % 2 == 0);
        if inner == Inner::GenVec {
            d.derives.retain(|t| !matches!(t, Tr::Arbitrary));
        }
        out.push(Subj { decl: d, tag: "bare-spelling".into(), serde_full: false });
    }
}

/// defaults written as compound arithmetic over unsuffixed literals: their value depends on the type the
/// literals are inferred at (the inner type, as in `try_new(<expr>)`), so wrapping or casting the expression
/// changes it (`(1.0 - 0.9) as f32` is computed in f64 and rounded afterwards)
pub fn default_expr_subjects(_tier: Tier, out: &mut Vec<Subj>) {
    let f32v = |x: f32| Val::f32(x);
    let a = 1.0f32 - 0.9f32;
    let b = 16777216.0f32 + 1.0f32 + 1.0f32;
    let c = 0.1f64 + 0.2f64;
    let shapes: Vec<(Inner, &str, Val, Validation)> = vec![
        (Inner::F32, "1.0 - 0.9", f32v(a), Validation::None),
        (Inner::F32, "1.0 - 0.9", f32v(a), Validation::Std(vec![Vd::Greater(Bound::lit(Val::f32(0.1)))])),
        (Inner::F32, "1.0 - 0.9", f32v(a), Validation::Std(vec![Vd::LessOrEqual(Bound::lit(Val::f32(0.1)))])),
        (Inner::F32, "16777216.0 + 1.0 + 1.0", f32v(b), Validation::Std(vec![Vd::Finite, Vd::Less(Bound::lit(Val::f32(16777217.5)))])),
        (Inner::F64, "0.1 + 0.2", Val::f64(c), Validation::Std(vec![Vd::Greater(Bound::lit(Val::f64(0.3)))])),
        (Inner::F64, "1.0 - 0.9", Val::f64(1.0f64 - 0.9f64), Validation::None),
        (Inner::Int(IntTy::U8), "100 + 50 * 3 + 5", Val::U(255), Validation::Std(vec![Vd::GreaterOrEqual(Bound::lit(Val::U(255)))])),
        (Inner::Int(IntTy::I8), "-(100 + 27)", Val::I(-127), Validation::Std(vec![Vd::Less(Bound::lit(Val::I(-126)))])),
        (Inner::Int(IntTy::I64), "1 << 40 | 1", Val::I((1i128 << 40) | 1), Validation::None),
    ];
    // a finite literal default that the sanitizer sends to infinity: `finite` judges the sanitized value
    for (k, inner) in [Inner::F64, Inner::F32].into_iter().enumerate() {
        let zero = if inner == Inner::F64 { Val::f64(0.0) } else { Val::f32(0.0) };
        let two = if inner == Inner::F64 { Val::f64(2.0) } else { Val::f32(2.0) };
        for dv in [zero.clone(), two.clone()] {
            let mut d = Decl::new("X", inner);
            d.sans = vec![San::With(UFn::Recip, if k == 0 { Spell::Path } else { Spell::Closure })];
            d.validation = Validation::Std(vec![Vd::Finite]);
            d.default = Some(dv);
            d.derives = max_derives(&d, false);
            // (no Eq/Ord: the order-law exploration of C12 rebuilds values from their stored form, which needs an
            // idempotent sanitizer)
            d.derives.retain(|t| !matches!(t, Tr::Arbitrary | Tr::Eq | Tr::Ord));
            out.push(Subj { decl: d, tag: "default/finite-literal-to-infinity".into(), serde_full: false });
        }
    }
    // an UNANCHORED regex (matches when the value merely contains a match), before and after other validators
    for (k, vs) in [
        vec![Vd::Regex(Re::HasDigit, ReSpell::Lit), Vd::LenCharMax(Bound::lit(Val::U(2)))],
        vec![Vd::NotEmpty, Vd::Regex(Re::HasDigit, ReSpell::StaticPath), Vd::Predicate(UFn::NoX, Spell::Path)],
        vec![Vd::Regex(Re::HasDigit, ReSpell::Lit)],
    ]
    .into_iter()
    .enumerate()
    {
        let mut d = Decl::new("X", Inner::Str);
        d.sans = if k == 1 { vec![San::Trim] } else { vec![] };
        d.validation = Validation::Std(vs);
        d.derives = max_derives(&d, false);
        out.push(Subj { decl: d, tag: "string/unanchored-regex".into(), serde_full: k == 0 });
    }
    // a newtype whose own name ends in `Error` (the generated error types are `<Name>Error`, `<Name>ParseError`)
    for (inner, val) in [(Inner::Int(IntTy::U8), Validation::Std(vec![Vd::LessOrEqual(Bound::lit(Val::U(100))), Vd::Greater(Bound::lit(Val::U(3)))])), (Inner::Str, Validation::Std(vec![Vd::LenCharMax(Bound::lit(Val::U(3))), Vd::NotEmpty])), (Inner::F64, Validation::Std(vec![Vd::GreaterOrEqual(Bound::lit(Val::f64(0.0)))]))] {
        let mut d = Decl::new("X", inner);
        d.validation = val;
        d.derives = max_derives(&d, false);
        out.push(Subj { decl: d, tag: "name-ends-with-Error".into(), serde_full: true });
    }
    // a VALID default under a non-idempotent sanitizer (the sanitizer must run exactly once on it)
    for (k, (inner, san, val, dv)) in [
        (Inner::Int(IntTy::I32), San::With(UFn::WrapAdd1, Spell::Path), Validation::Std(vec![Vd::Less(Bound::lit(Val::I(100)))]), Val::I(5)),
        (Inner::Int(IntTy::U8), San::With(UFn::WrapAdd1, Spell::Closure), Validation::Std(vec![Vd::LessOrEqual(Bound::lit(Val::U(6)))]), Val::U(5)),
        (Inner::Str, San::With(UFn::Dup, Spell::Path), Validation::Std(vec![Vd::LenCharMax(Bound::lit(Val::U(4)))]), Val::s("ab")),
        (Inner::Str, San::With(UFn::Dup, Spell::Closure), Validation::Std(vec![Vd::NotEmpty, Vd::LenCharMax(Bound::lit(Val::U(9)))]), Val::s("ab")),
        (Inner::Int(IntTy::I64), San::With(UFn::WrapAdd1, Spell::Path), Validation::Custom(UFn::CheckInt, Spell::Path), Val::I(49)),
    ]
    .into_iter()
    .enumerate()
    {
        let mut d = Decl::new("X", inner);
        d.sans = vec![san];
        d.validation = val;
        d.default = Some(dv);
        d.derives = max_derives(&d, false);
        d.derives.retain(|t| !matches!(t, Tr::Arbitrary));
        out.push(Subj { decl: d, tag: "default/non-idempotent-sanitizer".into(), serde_full: k == 0 });
    }
    for (i, (inner, src, v, val)) in shapes.into_iter().enumerate() {
        let mut d = Decl::new("X", inner);
        d.validation = val;
        d.default = Some(v);
        d.default_src = Some(src.to_string());
        d.derives = max_derives(&d, false);
        d.derives.retain(|t| !matches!(t, Tr::Arbitrary));
        out.push(Subj { decl: d, tag: "default-expression".into(), serde_full: i == 0 });
    }
}

/// The runtime-explorer subject list. Subject `i` is named `Nt{i}`.
pub fn rt_subjects(tier: Tier) -> Vec<Subj> {
    let mut out = vec![];
    int_subjects(tier, &mut out);
    float_subjects(tier, &mut out);
    string_subjects(tier, &mut out);
    any_subjects(tier, &mut out);
    bare_spelling_subjects(tier, &mut out);
    closure_return_subjects(tier, &mut out);
    default_expr_subjects(tier, &mut out);
    for (i, s) in out.iter_mut().enumerate() {
        s.decl.name = if s.tag == "name-ends-with-Error" { format!("{}Error", name_for(i)) } else { name_for(i) };
        // serde glue dominates compile time: keep it on every third subject (and all serde_full ones)
        if i % 3 != 0 && !s.serde_full {
            s.decl.derives.retain(|t| !matches!(t, Tr::Serialize | Tr::Deserialize));
        }
    }
    out
}

/// Is the valid set of the declaration non-empty over its domain? (C09/C14 exclude empty types.)
/// NaN does not count: bounds alone do not reject NaN (DESIGN 6.1), so `greater = 1.0, less = 1.0000001` (two
/// adjacent floats) would have the "valid set" {NaN}; such a declaration is empty for every practical purpose.
pub fn valid_set_nonempty(d: &Decl, dom: &[Val]) -> bool {
    dom.iter().any(|v| !v.is_nan() && matches!(refsem::construct(d, v), Ok(s) if !s.is_nan()))
}
