//! Raw report of one exploration run (post-processed by ./check into evidence + verdict).

use serde::Serialize;
use std::collections::BTreeMap;

#[derive(Clone, Debug, Serialize)]
pub struct Violation {
    pub property: String,
    pub subject: usize,
    /// declaration text as a user would write it
    pub decl: String,
    /// canonical shape of the declaration (inner type, sanitizer kinds, validator kinds, ...)
    pub shape: String,
    pub entry: String,
    pub input: String,
    pub expected: String,
    pub observed: String,
    /// failure class, e.g. `panic`, `wrong-verdict`, `wrong-value`, `wrong-variant`, `wrong-text:..`
    pub class: String,
}

#[derive(Clone, Debug, Default, Serialize)]
pub struct Report {
    pub property: String,
    pub tier: String,
    pub subjects: u64,
    pub evaluations: u64,
    pub states: u64,
    pub transitions: u64,
    pub traces_validated_against_impl: u64,
    pub distinct_nontrivial: u64,
    pub histogram: BTreeMap<String, u64>,
    pub samples: Vec<serde_json::Value>,
    pub violations: Vec<Violation>,
    pub violation_count: u64,
    pub exhaustive: bool,
    pub bounds: BTreeMap<String, serde_json::Value>,
    pub notes: Vec<String>,
    pub rule: String,
    /// machinery problems (vacuity, undecided messages …): exit 2, never a verdict
    pub machinery_errors: Vec<String>,
    pub wall_s: f64,
}

impl Report {
    pub fn new(property: &str, tier: &str) -> Report {
        Report { property: property.into(), tier: tier.into(), exhaustive: true, ..Default::default() }
    }
    pub fn hist(&mut self, k: &str, n: u64) {
        *self.histogram.entry(k.to_string()).or_insert(0) += n;
    }
    pub fn violate(&mut self, v: Violation) {
        self.violation_count += 1;
        // keep at most 4 recorded violations per (subject, entry, class)
        let same = self.violations.iter().filter(|x| x.subject == v.subject && x.entry == v.entry && x.class == v.class).count();
        if same < 4 && self.violations.len() < 4000 {
            self.violations.push(v);
        }
    }
    pub fn merge(&mut self, o: Report) {
        self.subjects += o.subjects;
        self.evaluations += o.evaluations;
        self.states += o.states;
        self.transitions += o.transitions;
        self.traces_validated_against_impl += o.traces_validated_against_impl;
        self.distinct_nontrivial += o.distinct_nontrivial;
        for (k, v) in o.histogram {
            *self.histogram.entry(k).or_insert(0) += v;
        }
        for s in o.samples {
            if self.samples.len() < 24 {
                self.samples.push(s);
            }
        }
        self.violation_count += o.violation_count;
        for v in o.violations {
            if self.violations.len() < 4000 {
                self.violations.push(v);
            }
        }
        self.exhaustive &= o.exhaustive;
        self.notes.extend(o.notes);
        self.machinery_errors.extend(o.machinery_errors);
    }
}
