//! serde plumbing: three formats, seven container positions, a dynamically typed document value
//! used to *produce* documents, and an event-recording serializer.

use crate::subject::{guard_any, DeOut, Fmt, Pos};
use ntcore::model::{IntTy, Val};
use serde::de::DeserializeOwned;
use serde::ser::{SerializeMap, SerializeSeq, SerializeStruct, SerializeTuple};
use serde::{Deserialize, Serialize, Serializer};

pub fn encode<T: Serialize + ?Sized>(fmt: Fmt, t: &T) -> Result<Vec<u8>, String> {
    match fmt {
        Fmt::Json => serde_json::to_vec(t).map_err(|e| e.to_string()),
        Fmt::Ron => ron::to_string(t).map(|s| s.into_bytes()).map_err(|e| e.to_string()),
        Fmt::MsgPack => rmp_serde::to_vec(t).map_err(|e| e.to_string()),
        Fmt::RonNamed => ron::ser::to_string_pretty(t, ron::ser::PrettyConfig::new().struct_names(true).new_line(String::new()).indentor(String::new())).map(|s| s.into_bytes()).map_err(|e| e.to_string()),
    }
}

pub fn decode<T: DeserializeOwned>(fmt: Fmt, doc: &[u8]) -> Result<T, String> {
    match fmt {
        Fmt::Json => serde_json::from_slice(doc).map_err(|e| e.to_string()),
        Fmt::Ron | Fmt::RonNamed => match std::str::from_utf8(doc) {
            Ok(s) => ron::from_str(s).map_err(|e| e.to_string()),
            Err(e) => Err(format!("utf8: {e}")),
        },
        Fmt::MsgPack => rmp_serde::from_slice(doc).map_err(|e| e.to_string()),
    }
}

/// a map decoded as its entries in document order (no Eq/Hash needed, duplicates kept)
pub struct MapEntries<K, V>(pub Vec<(K, V)>);
impl<'de, K: Deserialize<'de>, V: Deserialize<'de>> Deserialize<'de> for MapEntries<K, V> {
    fn deserialize<D: serde::Deserializer<'de>>(d: D) -> Result<Self, D::Error> {
        struct Vis<K, V>(std::marker::PhantomData<(K, V)>);
        impl<'de, K: Deserialize<'de>, V: Deserialize<'de>> serde::de::Visitor<'de> for Vis<K, V> {
            type Value = MapEntries<K, V>;
            fn expecting(&self, f: &mut std::fmt::Formatter) -> std::fmt::Result {
                write!(f, "a map")
            }
            fn visit_map<A: serde::de::MapAccess<'de>>(self, mut a: A) -> Result<Self::Value, A::Error> {
                let mut out = vec![];
                while let Some(k) = a.next_key::<K>()? {
                    let v = a.next_value::<V>()?;
                    out.push((k, v));
                }
                Ok(MapEntries(out))
            }
        }
        d.deserialize_map(Vis(std::marker::PhantomData))
    }
}

#[derive(Deserialize)]
pub struct Holder<T> {
    pub a: T,
    #[allow(dead_code)]
    pub b: u8,
}

/// decode `doc` with `T` at position `pos`; report the inner values of all `T`s in order
pub fn de_pos<T: DeserializeOwned>(fmt: Fmt, pos: Pos, doc: &[u8], to: impl Fn(T) -> Val) -> DeOut {
    let r = guard_any(|| -> Result<Vec<Val>, String> {
        Ok(match pos {
            Pos::Top => vec![to(decode::<T>(fmt, doc)?)],
            Pos::VecElem => decode::<Vec<T>>(fmt, doc)?.into_iter().map(&to).collect(),
            Pos::Opt => decode::<Option<T>>(fmt, doc)?.into_iter().map(&to).collect(),
            Pos::Tuple => {
                let (a, b) = decode::<(T, T)>(fmt, doc)?;
                vec![to(a), to(b)]
            }
            Pos::Field => vec![to(decode::<Holder<T>>(fmt, doc)?.a)],
            Pos::MapKey => decode::<MapEntries<T, u8>>(fmt, doc)?.0.into_iter().map(|(k, _)| to(k)).collect(),
            Pos::MapVal => decode::<MapEntries<String, T>>(fmt, doc)?.0.into_iter().map(|(_, v)| to(v)).collect(),
        })
    });
    match r {
        Ok(Ok(v)) => DeOut::Ok(v),
        Ok(Err(e)) => DeOut::Err(e),
        Err(p) => DeOut::Panic(p),
    }
}

/// dynamically typed document value used to produce documents
#[derive(Clone, Debug, PartialEq)]
pub enum DocVal {
    Int(IntTy, Val),
    F32(f32),
    F64(f64),
    Str(String),
    Bool(bool),
    Unit,
    None,
    Some(Box<DocVal>),
    Seq(Vec<DocVal>),
    Tuple(Vec<DocVal>),
    Map(Vec<(DocVal, DocVal)>),
    Struct(&'static str, Vec<(&'static str, DocVal)>),
    Newtype(&'static str, Box<DocVal>),
    Bytes(Vec<u8>),
}

impl Serialize for DocVal {
    fn serialize<S: Serializer>(&self, s: S) -> Result<S::Ok, S::Error> {
        match self {
            DocVal::Int(t, v) => match (t, v) {
                (IntTy::U8, Val::U(x)) => s.serialize_u8(*x as u8),
                (IntTy::U16, Val::U(x)) => s.serialize_u16(*x as u16),
                (IntTy::U32, Val::U(x)) => s.serialize_u32(*x as u32),
                (IntTy::U64, Val::U(x)) | (IntTy::Usize, Val::U(x)) => s.serialize_u64(*x as u64),
                (IntTy::U128, Val::U(x)) => s.serialize_u128(*x),
                (IntTy::I8, Val::I(x)) => s.serialize_i8(*x as i8),
                (IntTy::I16, Val::I(x)) => s.serialize_i16(*x as i16),
                (IntTy::I32, Val::I(x)) => s.serialize_i32(*x as i32),
                (IntTy::I64, Val::I(x)) | (IntTy::Isize, Val::I(x)) => s.serialize_i64(*x as i64),
                (IntTy::I128, Val::I(x)) => s.serialize_i128(*x),
                _ => Err(serde::ser::Error::custom("docval int mismatch")),
            },
            DocVal::F32(x) => s.serialize_f32(*x),
            DocVal::F64(x) => s.serialize_f64(*x),
            DocVal::Str(x) => s.serialize_str(x),
            DocVal::Bool(b) => s.serialize_bool(*b),
            DocVal::Unit => s.serialize_unit(),
            DocVal::None => s.serialize_none(),
            DocVal::Some(x) => s.serialize_some(&**x),
            DocVal::Seq(xs) => {
                let mut q = s.serialize_seq(Some(xs.len()))?;
                for x in xs {
                    q.serialize_element(x)?;
                }
                q.end()
            }
            DocVal::Tuple(xs) => {
                let mut q = s.serialize_tuple(xs.len())?;
                for x in xs {
                    q.serialize_element(x)?;
                }
                q.end()
            }
            DocVal::Map(es) => {
                let mut m = s.serialize_map(Some(es.len()))?;
                for (k, v) in es {
                    m.serialize_entry(k, v)?;
                }
                m.end()
            }
            DocVal::Struct(n, fs) => {
                let mut st = s.serialize_struct(n, fs.len())?;
                for (k, v) in fs {
                    st.serialize_field(k, v)?;
                }
                st.end()
            }
            DocVal::Newtype(n, x) => s.serialize_newtype_struct(n, &**x),
            DocVal::Bytes(b) => s.serialize_bytes(b),
        }
    }
}

/// the inner value as the inner type itself would serialize it
pub fn docval_of(v: &Val, int_ty: Option<IntTy>) -> DocVal {
    match v {
        Val::I(_) | Val::U(_) => DocVal::Int(int_ty.expect("int type"), v.clone()),
        Val::F32(b) => DocVal::F32(f32::from_bits(*b)),
        Val::F64(b) => DocVal::F64(f64::from_bits(*b)),
        Val::S(s) => DocVal::Str(s.clone()),
        Val::V(xs) => DocVal::Seq(xs.iter().map(|x| DocVal::Int(IntTy::I64, Val::I(*x as i128))).collect()),
        Val::P(x, y) => DocVal::Struct("Point", vec![("x", DocVal::Int(IntTy::I32, Val::I(*x as i128))), ("y", DocVal::Int(IntTy::I32, Val::I(*y as i128)))]),
    }
}

/// embed element documents at a container position
pub fn at_pos(pos: Pos, elems: &[DocVal]) -> DocVal {
    let e0 = || elems[0].clone();
    match pos {
        Pos::Top => e0(),
        Pos::VecElem => DocVal::Seq(elems.to_vec()),
        Pos::Opt => DocVal::Some(Box::new(e0())),
        Pos::Tuple => DocVal::Tuple(vec![e0(), elems[elems.len() - 1].clone()]),
        Pos::Field => DocVal::Struct("Holder", vec![("a", e0()), ("b", DocVal::Int(IntTy::U8, Val::U(7)))]),
        Pos::MapKey => DocVal::Map(elems.iter().enumerate().map(|(i, e)| (e.clone(), DocVal::Int(IntTy::U8, Val::U(i as u128)))).collect()),
        Pos::MapVal => DocVal::Map(elems.iter().enumerate().map(|(i, e)| (DocVal::Str(format!("k{i}")), e.clone())).collect()),
    }
}

// ---- event recording serializer (C10: what does `Serialize for T` call?) ------------------

#[derive(Default)]
pub struct Rec {
    pub ev: Vec<String>,
}
#[derive(Debug)]
pub struct RecErr(String);
impl std::fmt::Display for RecErr {
    fn fmt(&self, f: &mut std::fmt::Formatter) -> std::fmt::Result {
        write!(f, "{}", self.0)
    }
}
impl std::error::Error for RecErr {}
impl serde::ser::Error for RecErr {
    fn custom<T: std::fmt::Display>(m: T) -> Self {
        RecErr(m.to_string())
    }
}
pub fn record_events<T: Serialize + ?Sized>(t: &T) -> Vec<String> {
    let mut r = Rec::default();
    match t.serialize(&mut r) {
        Ok(()) => {}
        Err(e) => r.ev.push(format!("ERROR {e}")),
    }
    r.ev
}
macro_rules! rec_prim {
    ($($m:ident($t:ty)),*) => {$(
        fn $m(self, v: $t) -> Result<(), RecErr> { self.ev.push(format!("{}({:?})", stringify!($m), v)); Ok(()) }
    )*};
}
impl<'a> Serializer for &'a mut Rec {
    type Ok = ();
    type Error = RecErr;
    type SerializeSeq = Self;
    type SerializeTuple = Self;
    type SerializeTupleStruct = Self;
    type SerializeTupleVariant = Self;
    type SerializeMap = Self;
    type SerializeStruct = Self;
    type SerializeStructVariant = Self;
    rec_prim!(serialize_bool(bool), serialize_i8(i8), serialize_i16(i16), serialize_i32(i32), serialize_i64(i64), serialize_i128(i128), serialize_u8(u8), serialize_u16(u16), serialize_u32(u32), serialize_u64(u64), serialize_u128(u128), serialize_char(char), serialize_str(&str), serialize_bytes(&[u8]));
    fn serialize_f32(self, v: f32) -> Result<(), RecErr> {
        self.ev.push(format!("serialize_f32(0x{:08x})", v.to_bits()));
        Ok(())
    }
    fn serialize_f64(self, v: f64) -> Result<(), RecErr> {
        self.ev.push(format!("serialize_f64(0x{:016x})", v.to_bits()));
        Ok(())
    }
    fn serialize_none(self) -> Result<(), RecErr> {
        self.ev.push("serialize_none".into());
        Ok(())
    }
    fn serialize_some<T: Serialize + ?Sized>(self, v: &T) -> Result<(), RecErr> {
        self.ev.push("serialize_some".into());
        v.serialize(self)
    }
    fn serialize_unit(self) -> Result<(), RecErr> {
        self.ev.push("serialize_unit".into());
        Ok(())
    }
    fn serialize_unit_struct(self, n: &'static str) -> Result<(), RecErr> {
        self.ev.push(format!("serialize_unit_struct({n})"));
        Ok(())
    }
    fn serialize_unit_variant(self, n: &'static str, i: u32, v: &'static str) -> Result<(), RecErr> {
        self.ev.push(format!("serialize_unit_variant({n},{i},{v})"));
        Ok(())
    }
    fn serialize_newtype_struct<T: Serialize + ?Sized>(self, n: &'static str, v: &T) -> Result<(), RecErr> {
        self.ev.push(format!("serialize_newtype_struct({n})"));
        v.serialize(self)
    }
    fn serialize_newtype_variant<T: Serialize + ?Sized>(self, n: &'static str, i: u32, var: &'static str, v: &T) -> Result<(), RecErr> {
        self.ev.push(format!("serialize_newtype_variant({n},{i},{var})"));
        v.serialize(self)
    }
    fn serialize_seq(self, len: Option<usize>) -> Result<Self, RecErr> {
        self.ev.push(format!("serialize_seq({len:?})"));
        Ok(self)
    }
    fn serialize_tuple(self, len: usize) -> Result<Self, RecErr> {
        self.ev.push(format!("serialize_tuple({len})"));
        Ok(self)
    }
    fn serialize_tuple_struct(self, n: &'static str, len: usize) -> Result<Self, RecErr> {
        self.ev.push(format!("serialize_tuple_struct({n},{len})"));
        Ok(self)
    }
    fn serialize_tuple_variant(self, n: &'static str, i: u32, v: &'static str, len: usize) -> Result<Self, RecErr> {
        self.ev.push(format!("serialize_tuple_variant({n},{i},{v},{len})"));
        Ok(self)
    }
    fn serialize_map(self, len: Option<usize>) -> Result<Self, RecErr> {
        self.ev.push(format!("serialize_map({len:?})"));
        Ok(self)
    }
    fn serialize_struct(self, n: &'static str, len: usize) -> Result<Self, RecErr> {
        self.ev.push(format!("serialize_struct({n},{len})"));
        Ok(self)
    }
    fn serialize_struct_variant(self, n: &'static str, i: u32, v: &'static str, len: usize) -> Result<Self, RecErr> {
        self.ev.push(format!("serialize_struct_variant({n},{i},{v},{len})"));
        Ok(self)
    }
}
impl<'a> SerializeSeq for &'a mut Rec {
    type Ok = ();
    type Error = RecErr;
    fn serialize_element<T: Serialize + ?Sized>(&mut self, v: &T) -> Result<(), RecErr> {
        v.serialize(&mut **self)
    }
    fn end(self) -> Result<(), RecErr> {
        self.ev.push("end".into());
        Ok(())
    }
}
impl<'a> SerializeTuple for &'a mut Rec {
    type Ok = ();
    type Error = RecErr;
    fn serialize_element<T: Serialize + ?Sized>(&mut self, v: &T) -> Result<(), RecErr> {
        v.serialize(&mut **self)
    }
    fn end(self) -> Result<(), RecErr> {
        self.ev.push("end".into());
        Ok(())
    }
}
impl<'a> serde::ser::SerializeTupleStruct for &'a mut Rec {
    type Ok = ();
    type Error = RecErr;
    fn serialize_field<T: Serialize + ?Sized>(&mut self, v: &T) -> Result<(), RecErr> {
        v.serialize(&mut **self)
    }
    fn end(self) -> Result<(), RecErr> {
        self.ev.push("end".into());
        Ok(())
    }
}
impl<'a> serde::ser::SerializeTupleVariant for &'a mut Rec {
    type Ok = ();
    type Error = RecErr;
    fn serialize_field<T: Serialize + ?Sized>(&mut self, v: &T) -> Result<(), RecErr> {
        v.serialize(&mut **self)
    }
    fn end(self) -> Result<(), RecErr> {
        self.ev.push("end".into());
        Ok(())
    }
}
impl<'a> SerializeMap for &'a mut Rec {
    type Ok = ();
    type Error = RecErr;
    fn serialize_key<T: Serialize + ?Sized>(&mut self, v: &T) -> Result<(), RecErr> {
        v.serialize(&mut **self)
    }
    fn serialize_value<T: Serialize + ?Sized>(&mut self, v: &T) -> Result<(), RecErr> {
        v.serialize(&mut **self)
    }
    fn end(self) -> Result<(), RecErr> {
        self.ev.push("end".into());
        Ok(())
    }
}
impl<'a> SerializeStruct for &'a mut Rec {
    type Ok = ();
    type Error = RecErr;
    fn serialize_field<T: Serialize + ?Sized>(&mut self, k: &'static str, v: &T) -> Result<(), RecErr> {
        self.ev.push(format!("field({k})"));
        v.serialize(&mut **self)
    }
    fn end(self) -> Result<(), RecErr> {
        self.ev.push("end".into());
        Ok(())
    }
}
impl<'a> serde::ser::SerializeStructVariant for &'a mut Rec {
    type Ok = ();
    type Error = RecErr;
    fn serialize_field<T: Serialize + ?Sized>(&mut self, k: &'static str, v: &T) -> Result<(), RecErr> {
        self.ev.push(format!("field({k})"));
        v.serialize(&mut **self)
    }
    fn end(self) -> Result<(), RecErr> {
        self.ev.push("end".into());
        Ok(())
    }
}

// ---- adversarial deserializer (C04): hands the payload to ONE chosen visitor method -------------
//
// The three real formats only ever call `visit_newtype_struct`; a shortcut added to the generated visitor
// (`visit_u64`, `visit_seq`, …) would be invisible to them. This deserializer answers every
// `deserialize_*` request by calling the chosen visitor method with the payload.

#[derive(Clone, Debug, PartialEq)]
pub enum ProbeCall {
    Newtype(Box<ProbeCall>),
    Seq1(Box<ProbeCall>),
    Seq2(Box<ProbeCall>),
    Map1(Box<ProbeCall>),
    Some_(Box<ProbeCall>),
    U8(u8),
    U16(u16),
    U32(u32),
    U64(u64),
    U128(u128),
    I8(i8),
    I16(i16),
    I32(i32),
    I64(i64),
    I128(i128),
    F32(f32),
    F64(f64),
    Str(String),
    StringOwned(String),
    Bytes(Vec<u8>),
    VecI64(Vec<i64>),
    Point(i32, i32),
    Unit,
    None_,
    Bool(bool),
    Char(char),
}

pub struct ProbeDe(pub ProbeCall);

thread_local! {
    /// the newtype name the adversarial deserializer expects in `deserialize_newtype_struct` (None = any)
    pub static PROBE_EXPECT_NAME: std::cell::Cell<Option<&'static str>> = const { std::cell::Cell::new(None) };
}

#[derive(Debug)]
pub struct ProbeErr(pub String);
impl std::fmt::Display for ProbeErr {
    fn fmt(&self, f: &mut std::fmt::Formatter) -> std::fmt::Result {
        write!(f, "{}", self.0)
    }
}
impl std::error::Error for ProbeErr {}
impl serde::de::Error for ProbeErr {
    fn custom<T: std::fmt::Display>(m: T) -> Self {
        ProbeErr(m.to_string())
    }
}

struct ProbeSeq(Vec<ProbeCall>);
impl<'de> serde::de::SeqAccess<'de> for ProbeSeq {
    type Error = ProbeErr;
    fn next_element_seed<T: serde::de::DeserializeSeed<'de>>(&mut self, seed: T) -> Result<Option<T::Value>, ProbeErr> {
        if self.0.is_empty() {
            return Ok(None);
        }
        let c = self.0.remove(0);
        seed.deserialize(ProbeDe(c)).map(Some)
    }
}
struct ProbeMap(Vec<(String, ProbeCall)>, Option<ProbeCall>);
impl<'de> serde::de::MapAccess<'de> for ProbeMap {
    type Error = ProbeErr;
    fn next_key_seed<K: serde::de::DeserializeSeed<'de>>(&mut self, seed: K) -> Result<Option<K::Value>, ProbeErr> {
        if self.0.is_empty() {
            return Ok(None);
        }
        let (k, v) = self.0.remove(0);
        self.1 = Some(v);
        seed.deserialize(ProbeDe(ProbeCall::Str(k))).map(Some)
    }
    fn next_value_seed<V: serde::de::DeserializeSeed<'de>>(&mut self, seed: V) -> Result<V::Value, ProbeErr> {
        seed.deserialize(ProbeDe(self.1.take().unwrap()))
    }
}

impl<'de> serde::Deserializer<'de> for ProbeDe {
    type Error = ProbeErr;
    fn deserialize_any<V: serde::de::Visitor<'de>>(self, v: V) -> Result<V::Value, ProbeErr> {
        match self.0 {
            ProbeCall::Newtype(inner) => v.visit_newtype_struct(ProbeDe(*inner)),
            ProbeCall::Seq1(inner) => v.visit_seq(ProbeSeq(vec![*inner])),
            ProbeCall::Seq2(inner) => v.visit_seq(ProbeSeq(vec![(*inner).clone(), *inner])),
            ProbeCall::Map1(inner) => v.visit_map(ProbeMap(vec![("0".into(), *inner)], None)),
            ProbeCall::Some_(inner) => v.visit_some(ProbeDe(*inner)),
            ProbeCall::U8(x) => v.visit_u8(x),
            ProbeCall::U16(x) => v.visit_u16(x),
            ProbeCall::U32(x) => v.visit_u32(x),
            ProbeCall::U64(x) => v.visit_u64(x),
            ProbeCall::U128(x) => v.visit_u128(x),
            ProbeCall::I8(x) => v.visit_i8(x),
            ProbeCall::I16(x) => v.visit_i16(x),
            ProbeCall::I32(x) => v.visit_i32(x),
            ProbeCall::I64(x) => v.visit_i64(x),
            ProbeCall::I128(x) => v.visit_i128(x),
            ProbeCall::F32(x) => v.visit_f32(x),
            ProbeCall::F64(x) => v.visit_f64(x),
            ProbeCall::Str(s) => v.visit_str(&s),
            ProbeCall::StringOwned(s) => v.visit_string(s),
            ProbeCall::Bytes(b) => v.visit_bytes(&b),
            ProbeCall::VecI64(xs) => v.visit_seq(ProbeSeq(xs.into_iter().map(ProbeCall::I64).collect())),
            ProbeCall::Point(x, y) => v.visit_map(ProbeMap(vec![("x".into(), ProbeCall::I32(x)), ("y".into(), ProbeCall::I32(y))], None)),
            ProbeCall::Unit => v.visit_unit(),
            ProbeCall::None_ => v.visit_none(),
            ProbeCall::Bool(b) => v.visit_bool(b),
            ProbeCall::Char(c) => v.visit_char(c),
        }
    }
    fn deserialize_newtype_struct<V: serde::de::Visitor<'de>>(self, name: &'static str, v: V) -> Result<V::Value, ProbeErr> {
        // a name-checking format (like RON with struct names) refuses a newtype announced under another name
        if let ProbeCall::Newtype(_) = &self.0 {
            if let Some(want) = PROBE_EXPECT_NAME.with(|c| c.get()) {
                if want != name {
                    return Err(ProbeErr(format!("expected newtype struct named {want:?}, the visitor asked for {name:?}")));
                }
            }
        }
        self.deserialize_any(v)
    }
    serde::forward_to_deserialize_any! {
        bool i8 i16 i32 i64 i128 u8 u16 u32 u64 u128 f32 f64 char str string bytes byte_buf option unit unit_struct seq tuple tuple_struct map struct enum identifier ignored_any
    }
}

/// the payload as the inner type's own deserializer would receive it
pub fn probe_payload(v: &Val, int_ty: Option<IntTy>) -> ProbeCall {
    match (v, int_ty) {
        (Val::U(x), Some(IntTy::U8)) => ProbeCall::U8(*x as u8),
        (Val::U(x), Some(IntTy::U16)) => ProbeCall::U16(*x as u16),
        (Val::U(x), Some(IntTy::U32)) => ProbeCall::U32(*x as u32),
        (Val::U(x), Some(IntTy::U64)) | (Val::U(x), Some(IntTy::Usize)) => ProbeCall::U64(*x as u64),
        (Val::U(x), _) => ProbeCall::U128(*x),
        (Val::I(x), Some(IntTy::I8)) => ProbeCall::I8(*x as i8),
        (Val::I(x), Some(IntTy::I16)) => ProbeCall::I16(*x as i16),
        (Val::I(x), Some(IntTy::I32)) => ProbeCall::I32(*x as i32),
        (Val::I(x), Some(IntTy::I64)) | (Val::I(x), Some(IntTy::Isize)) => ProbeCall::I64(*x as i64),
        (Val::I(x), _) => ProbeCall::I128(*x),
        (Val::F32(b), _) => ProbeCall::F32(f32::from_bits(*b)),
        (Val::F64(b), _) => ProbeCall::F64(f64::from_bits(*b)),
        (Val::S(s), _) => ProbeCall::Str(s.clone()),
        (Val::V(xs), _) => ProbeCall::VecI64(xs.clone()),
        (Val::P(x, y), _) => ProbeCall::Point(*x, *y),
    }
}

pub fn de_probe<T: DeserializeOwned>(call: &ProbeCall, to: impl Fn(T) -> Val) -> DeOut {
    match guard_any(|| T::deserialize(ProbeDe(call.clone()))) {
        Ok(Ok(t)) => DeOut::Ok(vec![to(t)]),
        Ok(Err(e)) => DeOut::Err(e.0),
        Err(p) => DeOut::Panic(p),
    }
}
