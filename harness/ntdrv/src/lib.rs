pub mod explore;
pub mod explore2;
pub mod glue;
pub mod report;
pub mod serde_h;
pub mod subject;
pub mod watchdog;

use ntcore::domain::Tier;
use std::time::Instant;

/// entry point of the generated `rtmain` binary
pub fn run(subjects: Vec<Box<dyn subject::Subject>>, built_tier: &str) {
    let args: Vec<String> = std::env::args().collect();
    if args.len() < 2 {
        eprintln!("usage: rtmain <C01|C03|..> [--tier quick|thorough] [--out report.json] [--only idx] [--threads n]");
        std::process::exit(2);
    }
    let prop = args[1].clone();
    let mut tier = Tier::parse(built_tier);
    let mut out: Option<String> = None;
    let mut only: Option<usize> = None;
    let mut threads: Option<usize> = None;
    let mut k = 2;
    while k < args.len() {
        match args[k].as_str() {
            "--tier" => {
                tier = Tier::parse(&args[k + 1]);
                k += 1;
            }
            "--out" => {
                out = Some(args[k + 1].clone());
                k += 1;
            }
            "--only" => {
                only = args[k + 1].parse().ok();
                k += 1;
            }
            "--threads" => {
                threads = args[k + 1].parse().ok();
                k += 1;
            }
            _ => {}
        }
        k += 1;
    }
    if let Some(n) = threads {
        rayon::ThreadPoolBuilder::new().num_threads(n).build_global().ok();
    }
    // the subject list the binary was generated from
    let gen_tier = Tier::parse(built_tier);
    let subs = ntcore::grammar::rt_subjects(gen_tier);
    if subs.len() != subjects.len() {
        eprintln!("MACHINERY: generated subject count {} != grammar {}", subjects.len(), subs.len());
        std::process::exit(2);
    }
    for (i, s) in subjects.iter().enumerate() {
        if s.idx() != i || s.type_name() != subs[i].decl.name {
            eprintln!("MACHINERY: subject {i} out of sync with the grammar");
            std::process::exit(2);
        }
    }
    subject::install_panic_hook();
    watchdog::start(prop.clone());
    let cx = explore::Ctx { tier, subs: &subs, subjects: &subjects, only };
    let t0 = Instant::now();
    let mut rep = match prop.as_str() {
        "C01" => explore::c01(&cx),
        "C03" => explore::c03(&cx),
        "C04" => explore::c04(&cx),
        "C06" => explore::c06(&cx),
        "C07" => explore::c07(&cx),
        "C09" => explore2::c09(&cx),
        "C10" => explore::c10(&cx),
        "C11" => explore::c11(&cx),
        "C12" => explore2::c12(&cx),
        "C13" => explore::c13(&cx),
        "C14" => explore2::c14(&cx),
        "C16" => explore::c16(&cx),
        "LIST" => {
            for (i, s) in subs.iter().enumerate() {
                println!("{i}\t{}\t{}", s.tag, explore::decl_text(&s.decl).replace('\n', " "));
            }
            return;
        }
        other => {
            eprintln!("unknown property {other}");
            std::process::exit(2);
        }
    };
    rep.wall_s = t0.elapsed().as_secs_f64();
    rep.tier = tier.name().to_string();
    let js = serde_json::to_string_pretty(&rep).unwrap();
    match out {
        Some(p) => std::fs::write(p, js).unwrap(),
        None => println!("{js}"),
    }
    eprintln!(
        "{prop} {}: subjects={} evaluations={} states={} transitions={} violations={} machinery_errors={} wall={:.1}s",
        tier.name(),
        rep.subjects,
        rep.evaluations,
        rep.states,
        rep.transitions,
        rep.violation_count,
        rep.machinery_errors.len(),
        rep.wall_s
    );
}
