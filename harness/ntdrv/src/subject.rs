//! Type-erased interface to one generated newtype. The generated glue implements `Subject` by
//! calling the helpers below with closures over the concrete type.

use ntcore::model::Val;
use std::borrow::Cow;
use std::panic::{catch_unwind, AssertUnwindSafe};

#[derive(Clone, Debug, PartialEq, Eq, Hash)]
pub enum Outcome {
    /// a value exists; its `into_inner()`
    Ok(Val),
    /// validation error: variant name (or "Custom") and Display text
    Err { variant: String, display: String },
    /// parse-stage error (FromStr `Parse`, serde error, arbitrary::Error)
    ParseErr { display: String },
    Panic(String),
    /// the entry point does not exist for this declaration
    Absent,
}

impl Outcome {
    pub fn show(&self) -> String {
        match self {
            Outcome::Ok(v) => format!("Ok({})", v.show()),
            Outcome::Err { variant, display } => format!("Err({variant}: {display:?})"),
            Outcome::ParseErr { display } => format!("ParseErr({display:?})"),
            Outcome::Panic(m) => format!("Panic({:?})", m.chars().take(160).collect::<String>()),
            Outcome::Absent => "Absent".into(),
        }
    }
    pub fn class(&self) -> String {
        match self {
            Outcome::Ok(_) => "Ok".into(),
            Outcome::Err { variant, .. } => format!("Err:{variant}"),
            Outcome::ParseErr { .. } => "ParseErr".into(),
            Outcome::Panic(_) => "Panic".into(),
            Outcome::Absent => "Absent".into(),
        }
    }
    pub fn is_ok(&self) -> bool {
        matches!(self, Outcome::Ok(_))
    }
}

pub fn panic_msg(e: Box<dyn std::any::Any + Send>) -> String {
    if let Some(s) = e.downcast_ref::<String>() {
        s.clone()
    } else if let Some(s) = e.downcast_ref::<&str>() {
        s.to_string()
    } else {
        "<non-string panic>".into()
    }
}

thread_local! {
    /// depth of active guards on this thread: panics outside any guard are harness bugs and are printed
    pub static IN_GUARD: std::cell::Cell<u32> = const { std::cell::Cell::new(0) };
}

pub fn install_panic_hook() {
    std::panic::set_hook(Box::new(|info| {
        if IN_GUARD.with(|g| g.get()) == 0 {
            eprintln!("MACHINERY PANIC (outside guard): {info}");
        }
    }));
}

/// run `f`, turning a panic into `Outcome::Panic`
pub fn guard(f: impl FnOnce() -> Outcome) -> Outcome {
    match guard_any(f) {
        Ok(o) => o,
        Err(e) => Outcome::Panic(e),
    }
}

pub fn guard_any<R>(f: impl FnOnce() -> R) -> Result<R, String> {
    IN_GUARD.with(|g| g.set(g.get() + 1));
    let r = catch_unwind(AssertUnwindSafe(f)).map_err(panic_msg);
    IN_GUARD.with(|g| g.set(g.get() - 1));
    r
}

/// conversion between the dynamic `Val` and concrete inner types
pub trait InnerTy: Sized + Clone {
    fn from_val(v: &Val) -> Self;
    fn to_val(&self) -> Val;
}
macro_rules! impl_inner_int {
    ($($t:ty => $var:ident),*) => {$(
        impl InnerTy for $t {
            #[inline] fn from_val(v: &Val) -> Self { match v { Val::$var(x) => *x as $t, _ => panic!("value/type mismatch: {v:?} for {}", stringify!($t)) } }
            #[inline] fn to_val(&self) -> Val { Val::$var(*self as _) }
        }
    )*};
}
impl_inner_int!(u8 => U, u16 => U, u32 => U, u64 => U, u128 => U, usize => U, i8 => I, i16 => I, i32 => I, i64 => I, i128 => I, isize => I);
impl InnerTy for f32 {
    #[inline]
    fn from_val(v: &Val) -> Self {
        v.as_f32()
    }
    #[inline]
    fn to_val(&self) -> Val {
        Val::F32(self.to_bits())
    }
}
impl InnerTy for f64 {
    #[inline]
    fn from_val(v: &Val) -> Self {
        v.as_f64()
    }
    #[inline]
    fn to_val(&self) -> Val {
        Val::F64(self.to_bits())
    }
}
impl InnerTy for String {
    fn from_val(v: &Val) -> Self {
        v.as_str().to_string()
    }
    fn to_val(&self) -> Val {
        Val::S(self.clone())
    }
}
impl InnerTy for Cow<'static, str> {
    fn from_val(v: &Val) -> Self {
        Cow::Owned(v.as_str().to_string())
    }
    fn to_val(&self) -> Val {
        Val::S(self.to_string())
    }
}
impl InnerTy for Vec<i64> {
    fn from_val(v: &Val) -> Self {
        match v {
            Val::V(x) => x.clone(),
            _ => panic!("not a vec"),
        }
    }
    fn to_val(&self) -> Val {
        Val::V(self.clone())
    }
}
impl InnerTy for ulib::FBox {
    fn from_val(v: &Val) -> Self {
        ulib::FBox(v.as_f32())
    }
    fn to_val(&self) -> Val {
        Val::F32(self.0.to_bits())
    }
}
impl InnerTy for ulib::Point {
    fn from_val(v: &Val) -> Self {
        match v {
            Val::P(x, y) => ulib::Point { x: *x, y: *y },
            _ => panic!("not a point"),
        }
    }
    fn to_val(&self) -> Val {
        Val::P(self.x, self.y)
    }
}

#[derive(Clone, Copy, Debug, PartialEq, Eq, Hash, PartialOrd, Ord)]
pub enum Fmt {
    Json,
    Ron,
    MsgPack,
    /// RON written with explicit struct names (`Name(5)`): the only one of the formats that checks the
    /// name passed to `deserialize_newtype_struct` / `serialize_newtype_struct`
    RonNamed,
}
pub const ALL_FMT: [Fmt; 4] = [Fmt::Json, Fmt::Ron, Fmt::MsgPack, Fmt::RonNamed];

#[derive(Clone, Copy, Debug, PartialEq, Eq, Hash, PartialOrd, Ord)]
pub enum Pos {
    Top,
    VecElem,
    Opt,
    Tuple,
    Field,
    MapKey,
    MapVal,
}
pub const ALL_POS: [Pos; 7] = [Pos::Top, Pos::VecElem, Pos::Opt, Pos::Tuple, Pos::Field, Pos::MapKey, Pos::MapVal];

#[derive(Clone, Debug, PartialEq, Eq)]
pub enum DeOut {
    /// inner values of all newtype instances in the decoded container, in document order
    Ok(Vec<Val>),
    Err(String),
    Panic(String),
    Absent,
}

#[derive(Clone, Debug, Default)]
pub struct SerOut {
    pub t_bytes: Option<Result<Vec<u8>, String>>,
    pub plain_bytes: Option<Result<Vec<u8>, String>>,
    pub inner_bytes: Option<Result<Vec<u8>, String>>,
    /// round trip: from(to(v)).into_inner()
    pub roundtrip: Option<Outcome>,
    /// does the bare inner value round-trip in this format?
    pub inner_roundtrips: Option<bool>,
}

#[derive(Clone, Debug, Default)]
pub struct Views {
    pub constructed: bool,
    pub as_ref: Option<Val>,
    pub deref: Option<Val>,
    pub borrow: Option<Val>,
    pub borrow_str: Option<Val>,
    pub into: Option<Val>,
    pub display: Option<String>,
    pub inner_display: Option<String>,
    /// (format spec, newtype formatted, inner value formatted) for specs carrying width/fill/precision/sign options
    pub display_fmt: Vec<(String, String, String)>,
    pub clone_inner: Option<Val>,
    pub clone_eq: Option<bool>,
    /// `t == t` and `t.partial_cmp(&t)` on one and the same object
    pub eq_self: Option<bool>,
    pub partial_self: Option<Option<std::cmp::Ordering>>,
    pub iter_val: Option<Vec<Val>>,
    pub iter_ref: Option<Vec<Val>>,
    pub inner_iter: Option<Vec<Val>>,
    pub hash_t: Option<Vec<Vec<u8>>>,
    pub hash_inner: Option<Vec<Vec<u8>>>,
    pub hash_borrow_str: Option<Vec<Vec<u8>>>,
    /// all reference views point at the same address
    pub ptr_same: Option<bool>,
    pub debug: Option<String>,
    pub ser_events: Option<Vec<String>>,
    pub inner_ser_events: Option<Vec<String>>,
    pub panic: Option<String>,
}

#[derive(Clone, Debug, Default, PartialEq, Eq)]
pub struct CmpObs {
    pub constructed: bool,
    pub eq: Option<Result<bool, String>>,
    pub partial: Option<Result<Option<std::cmp::Ordering>, String>>,
    pub cmp: Option<Result<std::cmp::Ordering, String>>,
    /// the operators themselves: `[a < b, a <= b, a > b, a >= b]` (PartialOrd) – a hand-written impl can
    /// override them independently of `partial_cmp`
    pub ops: Option<Result<[bool; 4], String>>,
    /// `a != b` (PartialEq::ne can be overridden independently of `eq`)
    pub ne: Option<Result<bool, String>>,
    /// `[a.max(b), a.min(b)]` as inner values (provided methods of Ord; need Clone)
    pub maxmin: Option<Result<[Val; 2], String>>,
    /// inner value of `a` after `a.clone_from(&b)` (provided method of Clone)
    pub clone_from: Option<Result<Val, String>>,
}

pub trait Subject: Send + Sync {
    fn idx(&self) -> usize;
    fn type_name(&self) -> &'static str;
    /// a placeholder for a subject whose crate does not compile against the current tree (that refusal is
    /// reported by C08); every explorer skips it
    fn excluded(&self) -> bool {
        false
    }
    /// `try_new(raw)` (or `new(raw)` when the declaration has no validation)
    fn construct(&self, raw: &Val) -> Outcome;
    /// for String newtypes: the constructor called with `&str` (it takes `impl Into<String>`)
    fn construct_str(&self, _raw: &str) -> Outcome {
        Outcome::Absent
    }
    /// (input, outcome) pairs evaluated by rustc at compile time (`const` items)
    fn const_table(&self) -> Vec<(Val, Outcome)> {
        vec![]
    }
    fn try_from_inner(&self, _raw: &Val) -> Outcome {
        Outcome::Absent
    }
    fn try_from_str(&self, _raw: &str) -> Outcome {
        Outcome::Absent
    }
    fn from_inner(&self, _raw: &Val) -> Outcome {
        Outcome::Absent
    }
    fn from_strref(&self, _raw: &str) -> Outcome {
        Outcome::Absent
    }
    fn from_str(&self, _s: &str) -> Outcome {
        Outcome::Absent
    }
    /// `<Inner as FromStr>::from_str(s)` (oracle side of C06)
    fn inner_from_str(&self, _s: &str) -> Option<Result<Val, String>> {
        None
    }
    fn default(&self) -> Outcome {
        Outcome::Absent
    }
    fn de(&self, _fmt: Fmt, _pos: Pos, _doc: &[u8]) -> DeOut {
        DeOut::Absent
    }
    /// the same document decoded as a plain serde-derived newtype of the same name
    fn de_plain(&self, _fmt: Fmt, _pos: Pos, _doc: &[u8]) -> DeOut {
        DeOut::Absent
    }
    /// decode through the adversarial deserializer that calls one chosen visitor method
    fn de_probe(&self, _call: &crate::serde_h::ProbeCall) -> DeOut {
        DeOut::Absent
    }
    fn ser(&self, _fmt: Fmt, _v: &Val) -> SerOut {
        SerOut::default()
    }
    /// (outcome, bytes consumed)
    fn arbitrary(&self, _bytes: &[u8]) -> (Outcome, usize) {
        (Outcome::Absent, 0)
    }
    fn views(&self, _v: &Val) -> Views {
        Views::default()
    }
    fn cmp(&self, _a: &Val, _b: &Val) -> CmpObs {
        CmpObs::default()
    }
    /// sort a list of (valid) raw values through the newtype's Ord; returns inner values
    fn sort(&self, _xs: &[Val], _unstable: bool) -> Option<Result<Vec<Val>, String>> {
        None
    }
    /// insert into a BTreeMap keyed by the newtype and read the keys back in order
    fn btree_keys(&self, _xs: &[Val]) -> Option<Result<Vec<Val>, String>> {
        None
    }
    /// HashMap<T, usize> lookup of every element by its borrowed form; all must be found
    fn hashmap_lookup(&self, _xs: &[Val]) -> Option<Result<bool, String>> {
        None
    }
}

// ---- helpers used by generated glue -------------------------------------------------------

pub fn h_result<T, I: InnerTy, E: std::fmt::Display>(r: Result<T, E>, into: impl Fn(T) -> I, name: impl Fn(&E) -> &'static str) -> Outcome {
    match r {
        Ok(t) => Outcome::Ok(into(t).to_val()),
        Err(e) => Outcome::Err { variant: name(&e).to_string(), display: e.to_string() },
    }
}

pub struct RecHasher(pub Vec<Vec<u8>>);
impl std::hash::Hasher for RecHasher {
    fn finish(&self) -> u64 {
        0
    }
    fn write(&mut self, bytes: &[u8]) {
        self.0.push(bytes.to_vec());
    }
}
pub fn rec_hash<T: std::hash::Hash + ?Sized>(t: &T) -> Vec<Vec<u8>> {
    let mut h = RecHasher(vec![]);
    t.hash(&mut h);
    h.0
}
