//! C09, C14, C12 explorers.

use crate::explore::*;
use crate::report::Report;
use crate::serde_h::{encode, DocVal};
use crate::subject::*;
use ntcore::domain::{self, Tier};
use ntcore::model::*;
use ntcore::refsem;
use rayon::prelude::*;
use serde_json::json;
use std::collections::BTreeSet;

fn hex(b: &[u8]) -> String {
    if b.is_empty() {
        return "<empty>".into();
    }
    b.iter().map(|x| format!("{x:02x}")).collect::<Vec<_>>().join(" ")
}

/// byte inputs common to every Arbitrary subject
pub fn generic_byte_inputs() -> Vec<Vec<u8>> {
    let mut out: Vec<Vec<u8>> = vec![vec![]];
    for a in 0..=255u8 {
        out.push(vec![a]);
    }
    for a in 0..=255u8 {
        for b in 0..=255u8 {
            out.push(vec![a, b]);
        }
    }
    for len in 3..=64usize {
        out.push(vec![0x00; len]);
        out.push(vec![0xff; len]);
        let mut v = vec![0x00; len];
        v[len - 1] = 0x01;
        out.push(v);
        let mut v = vec![0xff; len];
        v[len - 1] = 0xfe;
        out.push(v);
        let mut v = vec![0x00; len];
        v[0] = 0x80;
        out.push(v);
        let mut v = vec![0x00; len];
        v[len - 1] = 0x80;
        out.push(v);
        let mut v = vec![0xff; len];
        v[0] = 0x7f;
        out.push(v);
        out.push((0..len).map(|i| (i * 37 + 11) as u8).collect());
    }
    out
}

fn float_word_inputs(d: &Decl, tier: Tier) -> Vec<Vec<u8>> {
    let b = domain::decl_bounds(d);
    let mut out = vec![];
    let seconds: [&[u8]; 3] = [&[], &[0, 0, 0x80, 0x3f, 0, 0, 0, 0], &[0xff; 8]];
    match d.inner {
        Inner::F32 => {
            let mut words: Vec<u32> = domain::f32_structured(&b).into_iter().map(|v| if let Val::F32(x) = v { x } else { 0 }).collect();
            for k in 0..32 {
                words.push(1u32 << k);
                words.push((1u32 << k).wrapping_sub(1));
                words.push(u32::MAX - (1u32 << k) + 1);
            }
            words.push(u32::MAX);
            words.push(u32::MAX - 1);
            words.sort();
            words.dedup();
            for w in words {
                for s in seconds {
                    let mut v = w.to_le_bytes().to_vec();
                    v.extend_from_slice(s);
                    out.push(v);
                    if tier == Tier::Quick {
                        break;
                    }
                }
            }
        }
        Inner::F64 => {
            let mut words: Vec<u64> = domain::f64_structured(&b, false).into_iter().map(|v| if let Val::F64(x) = v { x } else { 0 }).collect();
            for k in 0..64 {
                words.push(1u64 << k);
                words.push((1u64 << k).wrapping_sub(1));
                words.push(u64::MAX - (1u64 << k) + 1);
            }
            words.push(u64::MAX);
            words.push(u64::MAX - 1);
            words.sort();
            words.dedup();
            for w in words {
                for s in seconds {
                    let mut v = w.to_le_bytes().to_vec();
                    v.extend_from_slice(s);
                    out.push(v);
                    if tier == Tier::Quick {
                        break;
                    }
                }
            }
        }
        _ => {}
    }
    out
}

fn string_word_inputs(tier: Tier) -> Vec<Vec<u8>> {
    let sigma = domain::sigma(tier);
    let mut words: Vec<u32> = sigma.iter().map(|c| *c as u32).collect();
    words.push(0xD800); // surrogate: char::arbitrary wraps it
    words.push(0x110000 + 0xDF); // >= CHAR_END: taken modulo
    words.push(0x130); // İ (lowercase is two chars)
    words.push(0xDF); // ß (uppercase is two chars)
    words.push(0xFB01); // ﬁ
    words.push(0x149); // ŉ (uppercase is two chars)
    words.sort();
    words.dedup();
    let lens: Vec<u8> = if tier == Tier::Quick { vec![0, 1, 2, 3, 4, 5, 16, 17, 255] } else { (0..=255).collect() };
    let l = 3;
    let mut seqs: Vec<Vec<u32>> = vec![vec![]];
    let mut layer: Vec<Vec<u32>> = vec![vec![]];
    for _ in 0..l {
        let mut next = vec![];
        for s in &layer {
            for w in &words {
                let mut t = s.clone();
                t.push(*w);
                next.push(t);
            }
        }
        seqs.extend(next.iter().cloned());
        layer = next;
    }
    let mut out = vec![];
    for lb in &lens {
        for s in &seqs {
            let mut v = vec![*lb];
            for w in s {
                v.extend_from_slice(&w.to_le_bytes());
            }
            out.push(v);
        }
    }
    // longer runs of one word (fills any target length) incl. all-whitespace
    for w in [' ' as u32, 'a' as u32, 0xDF, 0x130, 0xA0, 0x1F980] {
        for lb in [0u8, 1, 5, 16, 20, 255] {
            let mut v = vec![lb];
            for _ in 0..40 {
                v.extend_from_slice(&w.to_le_bytes());
            }
            out.push(v);
        }
    }
    // every char whose upper- or lowercase mapping is not exactly one char (the complete class, computed
    // from the running std: titlecase letters, ligatures, ß, İ, ŉ, ...): as the whole text and after an 'a'
    for c in case_expanding_chars() {
        let w = c as u32;
        for lb in [0u8, 1, 2, 255] {
            let mut v = vec![lb];
            for _ in 0..12 {
                v.extend_from_slice(&w.to_le_bytes());
            }
            out.push(v);
            let mut v = vec![lb];
            v.extend_from_slice(&('a' as u32).to_le_bytes());
            for _ in 0..11 {
                v.extend_from_slice(&w.to_le_bytes());
            }
            out.push(v);
        }
    }
    // when min == max no length byte is consumed: the same word sequences without the leading byte
    let unprefixed: Vec<Vec<u8>> = out.iter().filter(|v| v.len() > 5 && v[0] == 1).map(|v| v[1..].to_vec()).collect();
    out.extend(unprefixed);
    out
}

/// all chars `c` with `c.to_uppercase().count() != 1 || c.to_lowercase().count() != 1`
pub fn case_expanding_chars() -> Vec<char> {
    (0u32..=0x10FFFF).filter_map(char::from_u32).filter(|c| c.to_uppercase().count() != 1 || c.to_lowercase().count() != 1).collect()
}

/// the byte inputs the Arbitrary explorations feed to a declaration's generator
pub fn arbitrary_inputs(d: &Decl, tier: Tier) -> Vec<Vec<u8>> {
    let mut v = generic_byte_inputs();
    v.extend(float_word_inputs(d, tier));
    if d.family() == Family::Str {
        v.extend(string_word_inputs(tier));
    }
    v
}

/// does the user-contract exclusion apply? (custom sanitizers that can push a generated in-range
/// value out of the valid set are the user's responsibility, DESIGN 6.5)
pub fn c09_in_scope(d: &Decl) -> bool {
    d.derives(Tr::Arbitrary)
}

pub fn c09(cx: &Ctx) -> Report {
    let tier = cx.tier;
    let generic = generic_byte_inputs();
    let strw = string_word_inputs(tier);
    let mut rep = for_subjects(cx, "C09", c09_in_scope, |i, d, s, r| {
        // valid set must be non-empty (computed by REF over the domain)
        let dom = domain::domain(d, tier);
        if !ntcore::grammar::valid_set_nonempty(d, &dom) {
            r.hist("excluded-empty-valid-set", 1);
            return;
        }
        let mut inputs: Vec<&Vec<u8>> = generic.iter().collect();
        let fw = float_word_inputs(d, tier);
        inputs.extend(fw.iter());
        if d.family() == Family::Str {
            inputs.extend(strw.iter());
        }
        let mut produced: BTreeSet<Val> = BTreeSet::new();
        let mut n_err = 0u64;
        for b in inputs {
            crate::watchdog::enter_owned_lazy(i, b);
            let (o, _used) = s.arbitrary(b);
            crate::watchdog::leave();
            r.evaluations += 1;
            r.transitions += 1;
            match &o {
                Outcome::Ok(v) => {
                    if refsem::first_violation(d, v).is_some() {
                        r.violate(mkviol("C09", i, d, "Arbitrary", hex(b), "a value satisfying every declared validator".into(), o.show(), "invalid-value-produced"));
                    }
                    if produced.len() < 100_000 {
                        produced.insert(v.clone());
                    }
                }
                Outcome::ParseErr { .. } => n_err += 1,
                Outcome::Panic(m) => {
                    let class = if m.contains("Arbitrary generated an invalid value") { "panic:generated-invalid-value" } else { "panic:other" };
                    r.violate(mkviol("C09", i, d, "Arbitrary", hex(b), "Ok(valid value) or arbitrary::Error".into(), o.show(), class));
                }
                _ => r.violate(mkviol("C09", i, d, "Arbitrary", hex(b), "Ok(valid value) or arbitrary::Error".into(), o.show(), "wrong-outcome")),
            }
        }
        r.states += produced.len() as u64;
        r.distinct_nontrivial += produced.len() as u64 + n_err.min(1);
        r.hist(&format!("{}:subjects", d.family_name()), 1);
        r.hist("arbitrary::Error", n_err);
        r.traces_validated_against_impl += r.evaluations;
        if r.samples.is_empty() && i % 17 == 0 {
            let b = vec![0xffu8; 4];
            r.samples.push(json!({"decl": decl_text(d), "bytes": hex(&b), "observed": s.arbitrary(&b).0.show(), "distinct_values_produced": produced.len()}));
        }
    });
    if tier == Tier::Thorough {
        // all 2^32 four-byte inputs on designated f32 subjects deriving Arbitrary with validation
        let all: Vec<usize> = (0..cx.subs.len()).filter(|i| cx.only.map(|o| o == *i).unwrap_or(true) && !cx.subjects[*i].excluded()).filter(|i| { let d = &cx.subs[*i].decl; d.inner == Inner::F32 && d.derives(Tr::Arbitrary) && d.has_validation() }).collect();
        let step = (all.len() / 16).max(1);
        for &i in all.iter().step_by(step) {
            let d = &cx.subs[i].decl;
            let s = &*cx.subjects[i];
            let dom = domain::domain(d, tier);
            if !ntcore::grammar::valid_set_nonempty(d, &dom) {
                continue;
            }
            let parts: Vec<Report> = (0u32..4096)
                .into_par_iter()
                .map(|chunk| {
                    let mut r = Report::new("C09", tier.name());
                    for k in 0..(1u32 << 20) {
                        let w = (chunk << 20) | k;
                        let b = w.to_le_bytes();
                        let (o, _) = s.arbitrary(&b);
                        match &o {
                            Outcome::Ok(v) => {
                                if refsem::first_violation(d, v).is_some() {
                                    r.violate(mkviol("C09", i, d, "Arbitrary", hex(&b), "valid value".into(), o.show(), "invalid-value-produced"));
                                }
                            }
                            Outcome::ParseErr { .. } => {}
                            Outcome::Panic(m) => {
                                let class = if m.contains("Arbitrary generated an invalid value") { "panic:generated-invalid-value" } else { "panic:other" };
                                r.violate(mkviol("C09", i, d, "Arbitrary", hex(&b), "Ok(valid) or Error".into(), o.show(), class));
                            }
                            _ => {}
                        }
                    }
                    r.evaluations += 1 << 20;
                    r.transitions += 1 << 20;
                    r
                })
                .collect();
            for p in parts {
                rep.merge(p);
            }
            rep.hist("f32-all-4-byte-inputs-subjects", 1);
        }
    }
    rep.rule = "every Arbitrary-deriving subject with a non-empty valid set is run on: the empty input, all inputs of length <= 2, boundary patterns of every length <= 64, structured generator words for floats (all 2^32 four-byte inputs on designated f32 subjects in thorough), [len byte]++char-word sequences for strings; outcome must be Ok(v) with REF accepting v unchanged, or arbitrary::Error; non-trivial = distinct values produced".into();
    rep
}

// ------------------------------------------------------------------------------------------------
// C14

pub fn c14(cx: &Ctx) -> Report {
    let tier = cx.tier;
    let mut rep = for_subjects(cx, "C14", |d| d.family() == Family::Int && d.derives(Tr::Arbitrary) && d.sans.is_empty(), |i, d, s, r| {
        let Inner::Int(t) = d.inner else { return };
        // REF's valid set, computed from the denoted bounds
        let mut lo: Option<i128> = None; // inclusive, as i128 where possible
        let mut hi: Option<i128> = None;
        let as_i = |v: &Val| -> Option<i128> {
            match v {
                Val::I(x) => Some(*x),
                Val::U(x) => i128::try_from(*x).ok(),
                _ => None,
            }
        };
        let (tmin, tmax) = (as_i(&t.min()), as_i(&t.max()));
        for vd in d.std_validators() {
            match vd {
                Vd::Greater(b) => lo = as_i(&b.v).and_then(|x| x.checked_add(1)),
                Vd::GreaterOrEqual(b) => lo = as_i(&b.v),
                Vd::Less(b) => hi = as_i(&b.v).and_then(|x| x.checked_sub(1)),
                Vd::LessOrEqual(b) => hi = as_i(&b.v),
                _ => {}
            }
        }
        let lo = lo.or(tmin);
        let hi = hi.or(tmax);
        let (Some(lo), Some(hi)) = (lo, hi) else {
            r.hist("skipped:range-not-representable", 1);
            return;
        };
        if hi < lo {
            r.hist("excluded-empty-valid-set", 1);
            return;
        }
        if hi.checked_sub(lo).map(|w| w >= 65536).unwrap_or(true) {
            r.hist("skipped:range-wider-than-2^16", 1);
            return;
        }
        let mut valid: BTreeSet<Val> = BTreeSet::new();
        for x in lo.saturating_sub(2)..=hi.saturating_add(2) {
            if let Some(v) = t.val(x) {
                if refsem::construct(d, &v).is_ok() {
                    valid.insert(v);
                }
            }
        }
        // for 8/16-bit types cross-check REF's set against the real constructor on the whole type
        if t.bits() <= 16 {
            let all = domain::int_domain(t, d);
            let real: BTreeSet<Val> = all.iter().filter(|v| s.construct(v).is_ok()).cloned().collect();
            if real != valid {
                // the property speaks of "every value obtainable through the constructor": where the real constructor
                // disagrees with REF (a C01 violation, reported there) its own set is the oracle here
                r.hist("valid-set-taken-from-the-real-constructor (differs from REF: see C01)", 1);
                valid = real;
            }
        }
        // how many bytes does the generator consume?
        let (_, used) = s.arbitrary(&[0xA5u8; 24]);
        if used > 2 {
            r.hist("skipped:consumes-more-than-2-bytes", 1);
            return;
        }
        let mut produced: BTreeSet<Val> = BTreeSet::new();
        let total = 1usize << (8 * used);
        for n in 0..total {
            let bytes: Vec<u8> = match used {
                0 => vec![],
                1 => vec![n as u8],
                _ => vec![(n >> 8) as u8, n as u8],
            };
            let (o, _) = s.arbitrary(&bytes);
            r.evaluations += 1;
            r.transitions += 1;
            match o {
                Outcome::Ok(v) => {
                    produced.insert(v);
                }
                Outcome::Panic(_) => {
                    // C09's business; still makes the produced set incomplete
                    r.hist("panics(seen by C09)", 1);
                }
                _ => {}
            }
        }
        r.states += produced.len() as u64;
        r.distinct_nontrivial += produced.len() as u64;
        r.hist(&format!("consumes-{used}-bytes"), 1);
        let missing: Vec<&Val> = valid.difference(&produced).collect();
        let extra: Vec<&Val> = produced.difference(&valid).collect();
        if !missing.is_empty() {
            let shown: Vec<String> = missing.iter().take(8).map(|v| v.show()).collect();
            r.violate(mkviol("C14", i, d, "Arbitrary (exhaustive byte inputs)", format!("all {total} inputs of length {used}"), format!("produced set == valid set ({} values)", valid.len()), format!("{} valid values never produced, e.g. {}", missing.len(), shown.join(", ")), "incomplete-range"));
        }
        if !extra.is_empty() {
            let shown: Vec<String> = extra.iter().take(8).map(|v| v.show()).collect();
            r.violate(mkviol("C14", i, d, "Arbitrary (exhaustive byte inputs)", format!("all {total} inputs of length {used}"), "only valid values".into(), format!("invalid values produced: {}", shown.join(", ")), "invalid-value-produced"));
        }
        r.traces_validated_against_impl += r.evaluations;
        if r.samples.len() < 1 && i % 5 == 0 {
            r.samples.push(json!({"decl": decl_text(d), "bytes_consumed": used, "inputs_enumerated": total, "valid_set_size": valid.len(), "produced_set_size": produced.len()}));
        }
    });
    let _ = tier;
    rep.rule = "for every integer Arbitrary subject whose valid range has <= 2^16 elements: measure how many bytes the generator consumes, enumerate EVERY byte string of that length, and compare the produced set with REF's valid set (cross-checked against the real constructor over the whole type for 8/16-bit types); non-trivial = distinct values produced".into();
    rep
}

// ------------------------------------------------------------------------------------------------
// C12

pub fn c12(cx: &Ctx) -> Report {
    let tier = cx.tier;
    let generic = generic_byte_inputs();
    let mut rep = for_subjects(
        cx,
        "C12",
        |d| d.family() == Family::Float && d.std_validators().iter().any(|v| matches!(v, Vd::Finite)) && (d.derives(Tr::Eq) || d.derives(Tr::Ord)),
        |i, d, s, r| {
            let dom = domain::domain(d, tier);
            let mut obtained: BTreeSet<Val> = BTreeSet::new();
            let note = |entry: &str, input: String, o: &Outcome, r: &mut Report, obtained: &mut BTreeSet<Val>| {
                r.evaluations += 1;
                r.transitions += 1;
                if let Outcome::Ok(v) = o {
                    if !v.is_finite_float() {
                        r.violate(mkviol("C12", i, d, entry, input, "no NaN / infinite value obtainable".into(), o.show(), "non-finite-obtained"));
                    }
                    if obtained.len() < 200_000 {
                        obtained.insert(v.clone());
                    }
                }
            };
            // (1) reachability through every entry point
            for raw in &dom {
                let o = s.construct(raw);
                note("try_new", raw.show(), &o, r, &mut obtained);
                if !raw.is_finite_float() {
                    r.distinct_nontrivial += 1;
                    let o = s.try_from_inner(raw);
                    if o != Outcome::Absent {
                        note("TryFrom", raw.show(), &o, r, &mut obtained);
                    }
                }
            }
            for t in fromstr_texts(d, &[], Tier::Quick) {
                let o = s.from_str(&t);
                if o == Outcome::Absent {
                    break;
                }
                note("FromStr", format!("{t:?}"), &o, r, &mut obtained);
            }
            if d.derives(Tr::Deserialize) {
                let name = s.type_name();
                let mut docs: Vec<(Fmt, Vec<u8>)> = vec![];
                for fmt in ALL_FMT {
                    for x in [f64::NAN, -f64::NAN, f64::INFINITY, f64::NEG_INFINITY, 1e39, -1e39, f64::MAX, 1e308 * 10.0] {
                        for dv in [DocVal::F64(x), DocVal::F32(x as f32)] {
                            if let Ok(b) = encode(fmt, &DocVal::Newtype(name, Box::new(dv.clone()))) {
                                docs.push((fmt, b));
                            }
                            if let Ok(b) = encode(fmt, &dv) {
                                docs.push((fmt, b));
                            }
                        }
                    }
                    for b in raw_docs(fmt) {
                        docs.push((fmt, b));
                    }
                }
                // MessagePack: f32 NaN payloads (all 2^23 x 2 signs in thorough, structured in quick)
                let payloads: Vec<u32> = if tier == Tier::Thorough { (1u32..(1 << 23)).collect() } else { domain::F32_MANTISSAS.iter().cloned().filter(|m| *m != 0).collect() };
                for p in payloads {
                    for sign in [0u32, 0x8000_0000] {
                        let w = (sign | 0x7f80_0000 | p).to_be_bytes();
                        docs.push((Fmt::MsgPack, vec![0xca, w[0], w[1], w[2], w[3]]));
                    }
                }
                for (fmt, doc) in docs {
                    for pos in [Pos::Top, Pos::VecElem] {
                        let doc2 = if pos == Pos::VecElem {
                            match fmt {
                                Fmt::Json | Fmt::Ron | Fmt::RonNamed => {
                                    let mut v = b"[".to_vec();
                                    v.extend_from_slice(&doc);
                                    v.push(b']');
                                    v
                                }
                                Fmt::MsgPack => {
                                    let mut v = vec![0x91];
                                    v.extend_from_slice(&doc);
                                    v
                                }
                            }
                        } else {
                            doc.clone()
                        };
                        if pos == Pos::VecElem && doc.len() == 5 && doc[0] == 0xca && tier == Tier::Thorough && doc[4] % 16 != 0 {
                            continue;
                        }
                        match s.de(fmt, pos, &doc2) {
                            DeOut::Ok(vs) => {
                                for v in vs {
                                    note(&format!("Deserialize {fmt:?} {pos:?}"), format!("{doc2:02x?}"), &Outcome::Ok(v), r, &mut obtained);
                                }
                            }
                            DeOut::Panic(p) => r.violate(mkviol("C12", i, d, "Deserialize", format!("{doc2:02x?}"), "no panic".into(), p, "panic")),
                            _ => {
                                r.evaluations += 1;
                            }
                        }
                    }
                }
            }
            // adversarial deserializer: every float-ish visitor method with every non-finite class
            if d.derives(Tr::Deserialize) {
                use crate::serde_h::ProbeCall;
                let mut calls: Vec<ProbeCall> = vec![];
                for x in [f64::NAN, -f64::NAN, f64::INFINITY, f64::NEG_INFINITY, 1e39, -1e39, f64::MAX, f64::MIN] {
                    calls.push(ProbeCall::F64(x));
                    calls.push(ProbeCall::F32(x as f32));
                    calls.push(ProbeCall::Newtype(Box::new(ProbeCall::F64(x))));
                    calls.push(ProbeCall::Newtype(Box::new(ProbeCall::F32(x as f32))));
                    calls.push(ProbeCall::Seq1(Box::new(ProbeCall::F64(x))));
                    calls.push(ProbeCall::Some_(Box::new(ProbeCall::F64(x))));
                    calls.push(ProbeCall::Str(format!("{x}")));
                }
                for c in calls {
                    match s.de_probe(&c) {
                        DeOut::Ok(vs) => {
                            for v in vs {
                                note("Deserialize via a single visitor method", format!("{c:?}"), &Outcome::Ok(v), r, &mut obtained);
                            }
                        }
                        DeOut::Panic(p) => r.violate(mkviol("C12", i, d, "Deserialize via a single visitor method", format!("{c:?}"), "no panic".into(), p, "panic")),
                        _ => r.evaluations += 1,
                    }
                }
            }
            if d.derives(Tr::Arbitrary) {
                let fw = float_word_inputs_pub(d, tier);
                for b in generic.iter().chain(fw.iter()) {
                    let (o, _) = s.arbitrary(b);
                    // panics are C09's business; a non-finite value is ours
                    note("Arbitrary", hex(b), &o, r, &mut obtained);
                }
            }
            if d.derives(Tr::Default) {
                let o = s.default();
                note("Default", "default".into(), &o, r, &mut obtained);
            }
            r.states += obtained.len() as u64;
            // (2) order laws on a grid of obtained values
            let all: Vec<Val> = obtained.iter().cloned().collect();
            let mut grid: Vec<Val> = obtainable(d, &all, if tier == Tier::Quick { 40 } else { 64 });
            // make sure both zeros are there if obtainable
            for z in [0.0f64, -0.0] {
                let v = if d.inner == Inner::F32 { Val::f32(z as f32) } else { Val::f64(z) };
                if obtained.contains(&v) && !grid.contains(&v) {
                    grid.push(v);
                }
            }
            let n = grid.len();
            let mut cmpm: Vec<Vec<Option<std::cmp::Ordering>>> = vec![vec![None; n]; n];
            for a in 0..n {
                for b in 0..n {
                    let o = s.cmp(&grid[a], &grid[b]);
                    r.evaluations += 1;
                    r.transitions += 1;
                    let want = pcmp(&grid[a], &grid[b]);
                    if let Some(c) = &o.cmp {
                        match c {
                            Ok(x) => {
                                cmpm[a][b] = Some(*x);
                                if Some(*x) != want {
                                    r.violate(mkviol("C12", i, d, "Ord::cmp", format!("{} ? {}", grid[a].show(), grid[b].show()), format!("{want:?}"), format!("{x:?}"), "cmp-differs-from-partial-cmp"));
                                }
                            }
                            Err(p) => r.violate(mkviol("C12", i, d, "Ord::cmp", format!("{} ? {}", grid[a].show(), grid[b].show()), "no panic".into(), p.clone(), "panic")),
                        }
                    }
                    if let (Some(ops), Some(c)) = (&o.ops, cmpm[a][b]) {
                        use std::cmp::Ordering::*;
                        let want = [c == Less, c != Greater, c == Greater, c != Less];
                        if *ops != Ok(want) {
                            r.violate(mkviol("C12", i, d, "operators [<, <=, >, >=] vs Ord::cmp", format!("{} ? {}", grid[a].show(), grid[b].show()), format!("{want:?} (cmp = {c:?})"), format!("{ops:?}"), "operators-inconsistent-with-cmp"));
                        }
                    }
                    if let Some(Ok(e)) = &o.eq {
                        if a == b && !*e {
                            r.violate(mkviol("C12", i, d, "PartialEq", grid[a].show(), "a == a".into(), "false".into(), "eq-not-reflexive"));
                        }
                        if let Some(c) = cmpm[a][b] {
                            if *e != (c == std::cmp::Ordering::Equal) {
                                r.violate(mkviol("C12", i, d, "Eq vs Ord", format!("{} ? {}", grid[a].show(), grid[b].show()), "== iff cmp == Equal".into(), format!("eq={e} cmp={c:?}"), "eq-ord-inconsistent"));
                            }
                        }
                    }
                }
            }
            // antisymmetry + transitivity over all triples
            let mut triples = 0u64;
            for a in 0..n {
                for b in 0..n {
                    if let (Some(x), Some(y)) = (cmpm[a][b], cmpm[b][a]) {
                        if x != y.reverse() {
                            r.violate(mkviol("C12", i, d, "Ord", format!("{} , {}", grid[a].show(), grid[b].show()), "antisymmetric".into(), format!("{x:?} / {y:?}"), "not-antisymmetric"));
                        }
                    }
                    for c in 0..n {
                        triples += 1;
                        if let (Some(x), Some(y), Some(z)) = (cmpm[a][b], cmpm[b][c], cmpm[a][c]) {
                            use std::cmp::Ordering::*;
                            if (x == Less || x == Equal) && (y == Less || y == Equal) && z == Greater {
                                r.violate(mkviol("C12", i, d, "Ord", format!("{} , {} , {}", grid[a].show(), grid[b].show(), grid[c].show()), "transitive".into(), format!("{x:?} {y:?} {z:?}"), "not-transitive"));
                            }
                        }
                    }
                }
            }
            r.evaluations += triples;
            r.distinct_nontrivial += (n * n) as u64;
            r.hist("grid-pairs", (n * n) as u64);
            r.hist("grid-triples", triples);
            // sorting / ordered map on permutations and rotations
            if n >= 2 {
                let mut lists: Vec<Vec<Val>> = vec![];
                for rot in 0..n {
                    let mut l = grid.clone();
                    l.rotate_left(rot);
                    lists.push(l);
                }
                // all 720 permutations of 6-element subsets containing zeros / equal pairs / extremes
                let pick = |idxs: &[usize]| -> Vec<Val> { idxs.iter().map(|k| grid[*k % n].clone()).collect() };
                let zi = grid.iter().position(|v| pcmp(v, &if d.inner == Inner::F32 { Val::f32(0.0) } else { Val::f64(0.0) }) == Some(std::cmp::Ordering::Equal)).unwrap_or(0);
                let subsets: Vec<Vec<Val>> = vec![pick(&[0, n - 1, zi, zi, n / 2, n / 3]), pick(&[0, 0, 1, n - 1, n - 2, zi]), pick(&[zi, zi + 1, zi.saturating_sub(1), n / 4, 3 * n / 4, n - 1])];
                let nsub = if tier == Tier::Quick { 1 } else { 3 };
                for sub in subsets.into_iter().take(nsub) {
                    let mut idx: Vec<usize> = (0..sub.len()).collect();
                    permute(&mut idx, 0, &mut |p| {
                        lists.push(p.iter().map(|k| sub[*k].clone()).collect());
                    });
                }
                for l in &lists {
                    for unstable in [false, true] {
                        if let Some(res) = s.sort(l, unstable) {
                            r.evaluations += 1;
                            r.transitions += 1;
                            match res {
                                Ok(sorted) => {
                                    let ok = sorted.len() == l.len() && sorted.windows(2).all(|w| matches!(pcmp(&w[0], &w[1]), Some(std::cmp::Ordering::Less) | Some(std::cmp::Ordering::Equal)));
                                    if !ok {
                                        r.violate(mkviol("C12", i, d, "slice::sort", format!("{} values", l.len()), "ordered by the inner partial_cmp".into(), format!("{:?}", sorted.iter().map(|v| v.show()).collect::<Vec<_>>()).chars().take(300).collect(), "sort-not-ordered"));
                                    }
                                }
                                Err(p) => r.violate(mkviol("C12", i, d, "slice::sort", format!("{} values", l.len()), "no panic".into(), p, "panic")),
                            }
                        }
                    }
                }
                if let Some(res) = s.btree_keys(&grid) {
                    r.evaluations += 1;
                    match res {
                        Ok(keys) => {
                            if !keys.windows(2).all(|w| pcmp(&w[0], &w[1]) == Some(std::cmp::Ordering::Less)) {
                                r.violate(mkviol("C12", i, d, "BTreeMap", format!("{} keys", grid.len()), "strictly increasing keys".into(), format!("{:?}", keys.iter().map(|v| v.show()).collect::<Vec<_>>()).chars().take(300).collect(), "btree-not-ordered"));
                            }
                        }
                        Err(p) => r.violate(mkviol("C12", i, d, "BTreeMap", format!("{} keys", grid.len()), "no panic".into(), p, "panic")),
                    }
                }
                r.hist("sorted-lists", lists.len() as u64 * 2);
            }
            r.traces_validated_against_impl += r.evaluations;
            if r.samples.is_empty() && i % 3 == 0 {
                r.samples.push(json!({"decl": decl_text(d), "obtained_states": obtained.len(), "grid": n, "triples": triples, "example_entry": "FromStr \"NaN\"", "observed": s.from_str("NaN").show()}));
            }
        },
    );
    if tier == Tier::Thorough {
        let sweep = f32_full_sweep_filtered(cx, "C12", 12, |d| d.std_validators().iter().any(|v| matches!(v, Vd::Finite)) && (d.derives(Tr::Eq) || d.derives(Tr::Ord)), |i, d, s, bits, r| {
            let raw = Val::F32(bits);
            if let Outcome::Ok(v) = s.construct(&raw) {
                if !v.is_finite_float() {
                    r.violate(mkviol("C12", i, d, "try_new", raw.show(), "no NaN / infinite value obtainable".into(), format!("Ok({})", v.show()), "non-finite-obtained"));
                }
            }
        });
        rep.merge(sweep);
    }
    rep.rule = "for float newtypes with `finite` deriving Eq/Ord: (1) every entry point (try_new/TryFrom on the whole domain incl. every NaN class and ±inf, FromStr texts, NaN/inf documents in 3 formats incl. MessagePack NaN payloads, Arbitrary byte sets, Default) is explored and every obtained value must be finite; (2) on a grid of obtained values all pairs (reflexivity, cmp == partial_cmp, antisymmetry, Eq/Ord consistency), all triples (transitivity), sort/sort_unstable/binary_search/BTreeMap on every rotation and on all 720 permutations of designated 6-element subsets; non-trivial = non-finite inputs tried + grid pairs".into();
    rep
}

fn permute(idx: &mut Vec<usize>, k: usize, f: &mut impl FnMut(&[usize])) {
    if k == idx.len() {
        f(idx);
        return;
    }
    for i in k..idx.len() {
        idx.swap(k, i);
        permute(idx, k + 1, f);
        idx.swap(k, i);
    }
}

pub fn float_word_inputs_pub(d: &Decl, tier: Tier) -> Vec<Vec<u8>> {
    float_word_inputs(d, tier)
}

pub fn f32_full_sweep_filtered(cx: &Ctx, prop: &str, max_subjects: usize, filter: impl Fn(&Decl) -> bool, f: impl Fn(usize, &Decl, &dyn Subject, u32, &mut Report) + Sync) -> Report {
    let mut rep = Report::new(prop, cx.tier.name());
    let all: Vec<usize> = (0..cx.subs.len()).filter(|i| cx.only.map(|o| o == *i).unwrap_or(true) && !cx.subjects[*i].excluded() && cx.subs[*i].decl.inner == Inner::F32 && filter(&cx.subs[*i].decl)).collect();
    if all.is_empty() {
        return rep;
    }
    let step = ((all.len() + max_subjects - 1) / max_subjects).max(1);
    for &i in all.iter().step_by(step) {
        let d = &cx.subs[i].decl;
        let s = &*cx.subjects[i];
        let parts: Vec<Report> = (0u32..4096)
            .into_par_iter()
            .map(|chunk| {
                let mut r = Report::new(prop, cx.tier.name());
                for k in 0..(1u32 << 20) {
                    f(i, d, s, (chunk << 20) | k, &mut r);
                }
                r.evaluations += 1 << 20;
                r.transitions += 1 << 20;
                r
            })
            .collect();
        for p in parts {
            rep.merge(p);
        }
        rep.hist("f32-full-sweep-subjects", 1);
    }
    rep
}
