//! Hang detection: every potentially non-terminating call registers itself; a watchdog thread
//! aborts the process (after printing the in-flight case) if one case exceeds the wall limit.

use std::sync::{Mutex, OnceLock};
use std::time::{Duration, Instant};

struct Slot {
    since: Option<Instant>,
    what: Option<Box<dyn Fn() -> String + Send>>,
}

static SLOTS: OnceLock<Mutex<Vec<std::sync::Arc<Mutex<Slot>>>>> = OnceLock::new();

thread_local! {
    static MY: std::sync::Arc<Mutex<Slot>> = {
        let s = std::sync::Arc::new(Mutex::new(Slot { since: None, what: None }));
        SLOTS.get_or_init(|| Mutex::new(vec![])).lock().unwrap().push(s.clone());
        s
    };
}

pub const LIMIT_S: u64 = 120;

/// register the current case; the description closure is only evaluated if the watchdog fires
pub fn enter<F: Fn() -> String + Send + 'static>(_f: F) {
    // descriptions borrow non-'static data at most call sites; use enter_owned there
}

pub fn enter_owned(what: String) {
    MY.with(|m| {
        let mut g = m.lock().unwrap();
        g.since = Some(Instant::now());
        g.what = Some(Box::new(move || what.clone()));
    });
}

pub fn tick() {
    MY.with(|m| {
        let mut g = m.lock().unwrap();
        g.since = Some(Instant::now());
    });
}

pub fn leave() {
    MY.with(|m| {
        let mut g = m.lock().unwrap();
        g.since = None;
    });
}

pub fn start(property: String) {
    std::thread::spawn(move || loop {
        std::thread::sleep(Duration::from_secs(5));
        if let Some(slots) = SLOTS.get() {
            for s in slots.lock().unwrap().iter() {
                let g = s.lock().unwrap();
                if let Some(t) = g.since {
                    if t.elapsed() > Duration::from_secs(LIMIT_S) {
                        let what = g.what.as_ref().map(|f| f()).unwrap_or_default();
                        println!("WATCHDOG property={property} case={what}");
                        std::process::exit(3);
                    }
                }
            }
        }
    });
}

/// cheap registration for hot loops: subject index + input bytes
pub fn enter_owned_lazy(subject: usize, bytes: &[u8]) {
    let b = bytes.to_vec();
    MY.with(|m| {
        let mut g = m.lock().unwrap();
        g.since = Some(Instant::now());
        g.what = Some(Box::new(move || format!("subject={subject} input={}", b.iter().map(|x| format!("{x:02x}")).collect::<Vec<_>>().join(" "))));
    });
}
