//! Runtime explorers: bounded exhaustive exploration of the generated code in lock step with REF.

use crate::report::{Report, Violation};
use crate::serde_h::{at_pos, docval_of, encode, DocVal};
use crate::subject::*;
use ntcore::domain::{self, Tier};
use ntcore::grammar::Subj;
use ntcore::model::*;
use ntcore::refsem::{self, Viol};
use ntcore::render;
use rayon::prelude::*;
use serde_json::json;
use std::collections::{BTreeSet, HashSet};

pub struct Ctx<'a> {
    pub tier: Tier,
    pub subs: &'a [Subj],
    pub subjects: &'a [Box<dyn Subject>],
    pub only: Option<usize>,
}

pub fn decl_text(d: &Decl) -> String {
    render::render(d).map(|s| s.text()).unwrap_or_else(|| format!("{d:?}"))
}

pub fn mkviol(prop: &str, i: usize, d: &Decl, entry: &str, input: String, expected: String, observed: String, class: &str) -> Violation {
    Violation { property: prop.into(), subject: i, decl: decl_text(d), shape: shape(d), entry: entry.into(), input, expected, observed, class: class.into() }
}

/// run `f` for every subject accepted by `filter`, in parallel, merging the per-subject reports
pub fn for_subjects(cx: &Ctx, prop: &str, filter: impl Fn(&Decl) -> bool + Sync, f: impl Fn(usize, &Decl, &dyn Subject, &mut Report) + Sync) -> Report {
    let mut rep = Report::new(prop, cx.tier.name());
    let idxs: Vec<usize> = (0..cx.subs.len()).filter(|i| cx.only.map(|o| o == *i).unwrap_or(true) && !cx.subjects[*i].excluded() && filter(&cx.subs[*i].decl)).collect();
    let parts: Vec<Report> = idxs
        .par_iter()
        .map(|&i| {
            let mut r = Report::new(prop, cx.tier.name());
            r.subjects = 1;
            f(i, &cx.subs[i].decl, &*cx.subjects[i], &mut r);
            r
        })
        .collect();
    for p in parts {
        rep.merge(p);
    }
    rep
}

fn expected_show(e: &Result<Val, Viol>) -> String {
    match e {
        Ok(v) => format!("Ok({})", v.show()),
        Err(Viol::Std(_, v)) => format!("Err({v})"),
        Err(Viol::Custom(s)) => format!("Err(Custom: {s:?})"),
    }
}

/// does the observation agree with REF on verdict and value (variant not compared)?
fn agrees_verdict(exp: &Result<Val, Viol>, obs: &Outcome) -> Result<(), &'static str> {
    match (exp, obs) {
        (Ok(v), Outcome::Ok(o)) => {
            if v == o {
                Ok(())
            } else {
                Err("wrong-value")
            }
        }
        (Err(_), Outcome::Err { .. }) => Ok(()),
        (_, Outcome::Panic(_)) => Err("panic"),
        (Ok(_), _) => Err("rejected-but-valid"),
        (Err(_), Outcome::Ok(_)) => Err("accepted-but-invalid"),
        (Err(_), _) => Err("wrong-outcome"),
    }
}

// ------------------------------------------------------------------------------------------------
// C01

pub fn c01(cx: &Ctx) -> Report {
    let tier = cx.tier;
    let mut rep = for_subjects(cx, "C01", |_| true, |i, d, s, r| {
        // thorough: every fourth string subject is explored on all strings up to length 5 (5.4 M inputs)
        let dom = if tier == Tier::Thorough && d.family() == Family::Str && i % 4 == 0 { domain::string_domain_len(tier, d, 5) } else { domain::domain(d, tier) };
        let mut stored: HashSet<Val> = HashSet::new();
        let mut changed = 0u64;
        let mut errs = 0u64;
        let mut oks = 0u64;
        for raw in &dom {
            let exp = refsem::construct(d, raw);
            let obs = s.construct(raw);
            r.evaluations += 1;
            match agrees_verdict(&exp, &obs) {
                Ok(()) => {}
                Err(class) => r.violate(mkviol("C01", i, d, if d.has_validation() { "try_new" } else { "new" }, raw.show(), expected_show(&exp), obs.show(), class)),
            }
            match &exp {
                Ok(v) => {
                    oks += 1;
                    if v != raw {
                        changed += 1;
                    }
                    stored.insert(v.clone());
                }
                Err(_) => errs += 1,
            }
            r.hist(&obs.class(), 1);
            if d.family() == Family::Str {
                let o2 = s.construct_str(raw.as_str());
                r.evaluations += 1;
                if o2 != obs {
                    r.violate(mkviol("C01", i, d, "try_new(&str)", raw.show(), obs.show(), o2.show(), "str-vs-string-differ"));
                }
            }
        }
        // string subjects: every special character (whitespace, non-1:1 case mappings, titlecase, ...; thorough:
        // additionally every Unicode scalar on every 64th subject) in 16 contexts, against REF
        if d.family() == Family::Str {
            let all_scalars = tier == Tier::Thorough && i % 64 == 0;
            let mut sweep = |c: char, r: &mut Report| {
                for t in unicode_contexts(c) {
                    let raw = Val::S(t);
                    let exp = refsem::construct(d, &raw);
                    let obs = s.construct(&raw);
                    r.evaluations += 1;
                    r.transitions += 1;
                    if let Err(class) = agrees_verdict(&exp, &obs) {
                        r.violate(mkviol("C01", i, d, if d.has_validation() { "try_new" } else { "new" }, raw.show(), expected_show(&exp), obs.show(), class));
                    }
                }
            };
            if all_scalars {
                for c in '\0'..=char::MAX {
                    sweep(c, r);
                }
            } else {
                for c in special_chars_cached() {
                    sweep(*c, r);
                }
            }
            r.hist("unicode-context-sweeps", 1);
        }
        // compile-time evaluated table (const_fn): rustc's const evaluator must agree too
        for (inp, out) in s.const_table() {
            let exp = refsem::construct(d, &inp);
            r.evaluations += 1;
            r.hist("const-eval", 1);
            if let Err(class) = agrees_verdict(&exp, &out) {
                r.violate(mkviol("C01", i, d, "const try_new", inp.show(), expected_show(&exp), out.show(), class));
            }
            let rt = s.construct(&inp);
            if rt != out {
                r.violate(mkviol("C01", i, d, "const-vs-runtime", inp.show(), rt.show(), out.show(), "const-differs"));
            }
        }
        r.states += stored.len() as u64 + if errs > 0 { 1 } else { 0 };
        r.transitions += dom.len() as u64;
        r.traces_validated_against_impl += dom.len() as u64;
        // non-trivial = rejected or changed by sanitisation
        r.distinct_nontrivial += changed + errs;
        let trivial = (d.has_validation() && (errs == 0 || oks == 0)) || (!d.sans.is_empty() && changed == 0);
        if trivial {
            r.hist("subjects-with-a-rule-that-never-fires", 1);
        }
        if r.samples.is_empty() && i % 7 == 0 {
            if let Some(raw) = dom.get(dom.len() / 3) {
                r.samples.push(json!({"decl": decl_text(d), "input": raw.show(), "observed": s.construct(raw).show(), "ref": expected_show(&refsem::construct(d, raw))}));
            }
        }
    });
    // thorough: every f32 bit pattern on a designated set of f32 subjects
    if tier == Tier::Thorough {
        let sweep = f32_full_sweep(cx, "C01", 24, |i, d, s, bits, r| {
            let raw = Val::F32(bits);
            let exp = refsem::construct(d, &raw);
            let obs = s.construct(&raw);
            if let Err(class) = agrees_verdict(&exp, &obs) {
                r.violate(mkviol("C01", i, d, "try_new", raw.show(), expected_show(&exp), obs.show(), class));
            }
        });
        rep.merge(sweep);
    }
    rep.rule = "every (declaration, raw input) of the bounded domain is run through the real constructor and compared with REF (verdict + stored bits); non-trivial = input rejected or changed by sanitisation".into();
    rep.bounds.insert("domain".into(), json!("ints: whole type for 8/16-bit, ±8 around pivots otherwise; f32/f64 structured sets (all 2^32 f32 patterns on designated subjects in thorough); strings Σ^≤L over 22 characters (L=3 quick, 4 thorough, 5 on every fourth string subject in thorough)"));
    rep
}

/// run `f` on all 2^32 f32 bit patterns for up to `max_subjects` f32 subjects (spread over the list)
pub fn f32_full_sweep(cx: &Ctx, prop: &str, max_subjects: usize, f: impl Fn(usize, &Decl, &dyn Subject, u32, &mut Report) + Sync) -> Report {
    let mut rep = Report::new(prop, cx.tier.name());
    let all: Vec<usize> = (0..cx.subs.len()).filter(|i| cx.only.map(|o| o == *i).unwrap_or(true) && !cx.subjects[*i].excluded() && cx.subs[*i].decl.inner == Inner::F32).collect();
    if all.is_empty() {
        return rep;
    }
    let step = (all.len() + max_subjects - 1) / max_subjects;
    let chosen: Vec<usize> = all.iter().cloned().step_by(step.max(1)).collect();
    for &i in &chosen {
        let d = &cx.subs[i].decl;
        let s = &*cx.subjects[i];
        let parts: Vec<Report> = (0u32..4096)
            .into_par_iter()
            .map(|chunk| {
                let mut r = Report::new(prop, cx.tier.name());
                let base = chunk << 20;
                for k in 0..(1u32 << 20) {
                    f(i, d, s, base | k, &mut r);
                }
                r.evaluations += 1 << 20;
                r.transitions += 1 << 20;
                r
            })
            .collect();
        for p in parts {
            rep.merge(p);
        }
        rep.hist("f32-full-sweep-subjects", 1);
    }
    rep.notes.push(format!("f32 full 2^32 sweep on {} of {} f32 subjects", chosen.len(), all.len()));
    rep
}

// ------------------------------------------------------------------------------------------------
// C03

pub fn c03(cx: &Ctx) -> Report {
    let tier = cx.tier;
    let mut rep = for_subjects(
        cx,
        "C03",
        |d| d.derives(Tr::TryFrom) || d.derives(Tr::From) || d.derives(Tr::Default) || (d.family() == Family::Str && d.derives(Tr::FromStr)),
        |i, d, s, r| {
            let dom = domain::domain(d, tier);
            let mut nontrivial = 0u64;
            for raw in &dom {
                let base = s.construct(raw);
                let check = |entry: &str, o: Outcome, r: &mut Report| {
                    if o == Outcome::Absent {
                        return;
                    }
                    r.evaluations += 1;
                    r.transitions += 1;
                    r.hist(&format!("{entry}:{}", o.class()), 1);
                    if o != base {
                        let class = if matches!(o, Outcome::Panic(_)) { "panic" } else { "differs-from-constructor" };
                        r.violate(mkviol("C03", i, d, entry, raw.show(), base.show(), o.show(), class));
                    }
                };
                check("TryFrom<Inner>", s.try_from_inner(raw), r);
                check("From<Inner>", s.from_inner(raw), r);
                if d.family() == Family::Str {
                    check("TryFrom<&str>", s.try_from_str(raw.as_str()), r);
                    check("From<&str>", s.from_strref(raw.as_str()), r);
                    check("FromStr", s.from_str(raw.as_str()), r);
                }
                if !matches!(&base, Outcome::Ok(v) if v == raw) {
                    nontrivial += 1;
                }
            }
            r.distinct_nontrivial += nontrivial;
            r.states += dom.len() as u64;
            r.traces_validated_against_impl += dom.len() as u64;
            // Default
            if d.derives(Tr::Default) {
                if let Some(raw) = &d.default {
                    let exp = refsem::construct(d, raw);
                    let obs = s.default();
                    r.evaluations += 1;
                    r.transitions += 1;
                    r.distinct_nontrivial += 1;
                    r.hist(&format!("Default:{}", obs.class()), 1);
                    let ok = match (&exp, &obs) {
                        (Ok(v), Outcome::Ok(o)) => v == o,
                        (Err(_), Outcome::Panic(_)) => true,
                        _ => false,
                    };
                    if !ok {
                        r.violate(mkviol("C03", i, d, "Default::default", raw.show(), format!("{} (Err => must panic)", expected_show(&exp)), obs.show(), "default-differs"));
                    }
                    // and it must equal the constructor on the same raw default
                    let c = s.construct(raw);
                    match (&c, &obs) {
                        (Outcome::Ok(a), Outcome::Ok(b)) if a == b => {}
                        (Outcome::Err { .. }, Outcome::Panic(_)) => {}
                        _ => r.violate(mkviol("C03", i, d, "Default::default", raw.show(), c.show(), obs.show(), "default-vs-constructor")),
                    }
                    if r.samples.len() < 2 {
                        r.samples.push(json!({"decl": decl_text(d), "entry": "Default::default", "default_raw": raw.show(), "observed": obs.show(), "ref": expected_show(&exp)}));
                    }
                }
            }
        },
    );
    rep.rule = "every derived conversion is applied to every raw input of the C01 domain and compared with the real constructor's outcome on the same input (value bits, error variant and text); Default under catch_unwind against REF; non-trivial = input not a fixed point of the constructor".into();
    rep
}

// ------------------------------------------------------------------------------------------------
// C06

pub fn fromstr_texts(d: &Decl, dom: &[Val], tier: Tier) -> Vec<String> {
    let mut out: BTreeSet<String> = BTreeSet::new();
    for v in dom.iter() {
        match v {
            Val::I(x) => {
                out.insert(format!("{x}"));
                if *x >= 0 {
                    out.insert(format!("+{x}"));
                }
            }
            Val::U(x) => {
                out.insert(format!("{x}"));
                out.insert(format!("+{x}"));
                out.insert(format!("-{x}"));
            }
            Val::F32(b) => {
                let f = f32::from_bits(*b);
                out.insert(format!("{f:?}"));
                out.insert(format!("{f}"));
                out.insert(format!("{f:e}"));
            }
            Val::F64(b) => {
                let f = f64::from_bits(*b);
                out.insert(format!("{f:?}"));
                out.insert(format!("{f}"));
                out.insert(format!("{f:e}"));
            }
            Val::P(x, y) => {
                out.insert(format!("{x},{y}"));
                out.insert(format!("{x}, {y}"));
                out.insert(format!("{x};{y}"));
            }
            _ => {}
        }
        if out.len() > 300_000 {
            break;
        }
    }
    let alpha: Vec<char> = "019-+.eE_ Nainf,\n\r\t".chars().collect();
    let l = if tier == Tier::Quick { 3 } else { 4 };
    for s in domain::strings_upto(&alpha, l) {
        out.insert(s);
    }
    for s in [
        "+5", "-0", " 5", "5 ", "5\n", "5\r\n", "5\r", "\n5", "5\t", "\n", "1.5\n", "NaN\n", "inf\r\n", "1,2\n", "5\u{a0}", "5\u{2028}", "5\u{0}", "\u{feff}5", "1e400", "1e-400", "-1e400", "infinity", "-infinity", "Infinity", "INF", "inf", "-inf", "+inf", "NaN", "nan", "-NaN", "+NaN", "٣", "１", "0x10", "0b1", "1_000", "", "340282366920938463463374607431768211455", "340282366920938463463374607431768211456",
        "-170141183460469231731687303715884105728", "-170141183460469231731687303715884105729", "170141183460469231731687303715884105727", "99999999999999999999999999999999999999999999", "1e39", "3.4028235e38", "3.4028236e38", "3.5e38", "1.7976931348623157e308", "1.8e308", "4.9e-324", "2e-324",
        "1e-46", "0.1", "-0.0", "+0.0", "00012", "-00012", "1.", ".5", "1e", "e1", "--1", "+-1", "1,2", "1,2,3", ",", "2147483647,-2147483648", "2147483648,0", "🦀", "1\u{0}", "\u{feff}1", "12.5", "12.500", "0.25", "0.2500000000000001", "256", "255", "-129", "-128", "128", "127", "65535", "65536", "32767", "32768", "-32768", "-32769",
    ] {
        out.insert(s.to_string());
    }
    // decimals a hair above the midpoint of two adjacent f32 / f64 values (a parse routed through a wider or narrower
    // type rounds twice), and integers beyond 2^53 / 2^24
    for s in ["1.00000005960464477539062500000000000000000001", "1.0000000596046447753906251", "16777217", "16777217.0000001", "1152921573326323713", "9007199254740993", "9007199254740993.0", "0.1000000014901161193847656250001", "1.00000000000000011102230246251565404236316680908203126", "-1.00000005960464477539062500000000000000000001"] {
        out.insert(s.to_string());
    }
    // radix prefixes, alternative signs and digit spellings around short bodies: texts another parser (from_str_radix,
    // a literal parser, a locale-aware one) accepts and the inner type's FromStr does not
    for pre in ["0x", "0X", "0o", "0O", "0b", "0B", "#", "$", "x", "+0x", "-0x", "0x-", "0x+", "\u{2212}", "\u{ff0b}"] {
        for body in ["", "0", "1", "7", "10", "ff", "FF", "1f", "5", "1.5", "1p3"] {
            out.insert(format!("{pre}{body}"));
        }
    }
    for s in ["1f32", "1u8", "1i32", "1.0f64", "1_0", "_1", "1_", "1e+2", "1E2", "1e2", "1e-2", "1d2", "0x1p3", "1h", "١٢", "1'000", "1 000", "1,000", "1.000,5", "½", "²", "1\u{200b}", "\u{200e}1", "TRUE", "true"] {
        out.insert(s.to_string());
    }
    let _ = d;
    out.into_iter().collect()
}

pub fn c06(cx: &Ctx) -> Report {
    let tier = cx.tier;
    let mut rep = for_subjects(cx, "C06", |d| d.family() != Family::Str && d.derives(Tr::FromStr), |i, d, s, r| {
        let dom = domain::domain(d, tier);
        let texts = fromstr_texts(d, &dom, tier);
        let mut nontrivial = 0u64;
        for t in &texts {
            let Some(p) = s.inner_from_str(t) else { continue };
            let obs = s.from_str(t);
            r.evaluations += 1;
            r.transitions += 1;
            r.hist(&obs.class(), 1);
            match p {
                Err(_) => {
                    if !matches!(obs, Outcome::ParseErr { .. }) {
                        r.violate(mkviol("C06", i, d, "FromStr", format!("{t:?}"), "ParseErr (inner parse fails)".into(), obs.show(), if matches!(obs, Outcome::Panic(_)) { "panic" } else { "parse-error-misreported" }));
                    }
                }
                Ok(raw) => {
                    nontrivial += 1;
                    let exp = refsem::construct(d, &raw);
                    let ok = match (&exp, &obs) {
                        (Ok(v), Outcome::Ok(o)) => v == o,
                        (Err(vi), Outcome::Err { variant, .. }) => vi.variant() == variant,
                        _ => false,
                    };
                    if !ok {
                        r.violate(mkviol("C06", i, d, "FromStr", format!("{t:?}"), expected_show(&exp), obs.show(), if matches!(obs, Outcome::Panic(_)) { "panic" } else { "differs-from-parse-then-construct" }));
                    }
                    // differential against the real constructor too
                    let c = s.construct(&raw);
                    let same = match (&c, &obs) {
                        (Outcome::Ok(a), Outcome::Ok(b)) => a == b,
                        (Outcome::Err { variant: a, .. }, Outcome::Err { variant: b, .. }) => a == b,
                        _ => false,
                    };
                    if !same && ok {
                        r.violate(mkviol("C06", i, d, "FromStr", format!("{t:?}"), c.show(), obs.show(), "differs-from-constructor"));
                    }
                }
            }
        }
        r.distinct_nontrivial += nontrivial;
        r.states += texts.len() as u64;
        r.traces_validated_against_impl += texts.len() as u64;
        if r.samples.is_empty() && i % 5 == 0 {
            for t in ["1e400", "-0", " 5", "NaN"] {
                r.samples.push(json!({"decl": decl_text(d), "text": t, "inner_parse": format!("{:?}", s.inner_from_str(t)), "observed": s.from_str(t).show()}));
            }
        }
    });
    rep.rule = "every text of the bounded text set is parsed by the inner type's own FromStr (same std routine) and by the newtype's FromStr; Parse iff inner parse fails, else outcome == REF.construct(parsed) and == real constructor; non-trivial = texts the inner type accepts".into();
    rep
}

// ------------------------------------------------------------------------------------------------
// C07

pub fn c07(cx: &Ctx) -> Report {
    let tier = cx.tier;
    let mut rep = for_subjects(cx, "C07", |d| d.has_validation(), |i, d, s, r| {
        let dom = domain::domain(d, tier);
        let mut multi = 0u64;
        let mut seen_variants: BTreeSet<String> = BTreeSet::new();
        for raw in &dom {
            let exp = refsem::construct(d, raw);
            let Err(viol) = &exp else { continue };
            let obs = s.construct(raw);
            r.evaluations += 1;
            r.transitions += 1;
            let san = refsem::sanitize(d, raw);
            if refsem::violation_count(d, &san) >= 2 {
                multi += 1;
            }
            match &obs {
                Outcome::Err { variant, display } => {
                    seen_variants.insert(variant.clone());
                    r.hist(&format!("Err:{variant}"), 1);
                    match viol {
                        Viol::Std(_, v) => {
                            if v != variant {
                                r.violate(mkviol("C07", i, d, "try_new", raw.show(), format!("Err({v}) – first violated rule in written order"), obs.show(), "wrong-variant"));
                            }
                        }
                        Viol::Custom(text) => {
                            if variant != "Custom" || display != text {
                                r.violate(mkviol("C07", i, d, "try_new", raw.show(), format!("user error unchanged: {text:?}"), obs.show(), "custom-error-changed"));
                            }
                        }
                    }
                }
                Outcome::Panic(_) => r.violate(mkviol("C07", i, d, "try_new", raw.show(), expected_show(&exp), obs.show(), "panic")),
                _ => { /* verdict disagreement is C01's business */ }
            }
        }
        r.distinct_nontrivial += multi;
        r.states += seen_variants.len() as u64;
        r.traces_validated_against_impl += r.evaluations;
        r.hist("inputs-violating->=2-rules", multi);
        if r.samples.is_empty() && multi > 0 && i % 3 == 0 {
            if let Some(raw) = dom.iter().find(|raw| refsem::violation_count(d, &refsem::sanitize(d, raw)) >= 2) {
                r.samples.push(json!({"decl": decl_text(d), "input": raw.show(), "violated_rules": refsem::violation_count(d, &refsem::sanitize(d, raw)), "observed": s.construct(raw).show(), "ref": expected_show(&refsem::construct(d, raw))}));
            }
        }
    });
    rep.rule = "for every rejected input the error variant must be the first validator (written order) that the sanitized value violates; the variant set is matched exhaustively without wildcard at compile time of the subject crate; non-trivial = inputs violating two or more rules at once".into();
    rep.notes.push("enum shape: the subject glue matches the generated error enum with exactly the variants REF derives and no wildcard arm; the subject crates compiled, so no declaration has a missing or extra variant".into());
    rep
}

// ------------------------------------------------------------------------------------------------
// C16

#[derive(Clone, Copy, Debug, PartialEq, Eq)]
pub enum Rel {
    Gt,
    Ge,
    Lt,
    Le,
}

/// extract (relation, bound text, is_length) from a message by a phrase lexicon
pub fn message_relation(text: &str) -> Option<(Rel, String, bool)> {
    let lower = text.to_lowercase();
    let lex: [(&str, Rel); 22] = [
        ("greater than or equal to ", Rel::Ge),
        ("greater or equal to ", Rel::Ge),
        ("more than or equal to ", Rel::Ge),
        ("at least ", Rel::Ge),
        ("not less than ", Rel::Ge),
        ("no less than ", Rel::Ge),
        ("less than or equal to ", Rel::Le),
        ("less or equal to ", Rel::Le),
        ("at most ", Rel::Le),
        ("not more than ", Rel::Le),
        ("no more than ", Rel::Le),
        ("not greater than ", Rel::Le),
        ("not exceed ", Rel::Le),
        ("greater than ", Rel::Gt),
        ("more than ", Rel::Gt),
        ("above ", Rel::Gt),
        ("longer than ", Rel::Gt),
        ("less than ", Rel::Lt),
        ("below ", Rel::Lt),
        ("fewer than ", Rel::Lt),
        ("shorter than ", Rel::Lt),
        ("smaller than ", Rel::Lt),
    ];
    for (phrase, rel) in lex {
        if let Some(p) = lower.find(phrase) {
            let rest = &text[p + phrase.len()..];
            let is_len = lower.contains("character") || lower.contains("length") || lower.contains("char");
            // the bound is the numeric token that follows the phrase (as the inner type prints it)
            let rest = rest.trim_start();
            let mut end = 0usize;
            let bytes: Vec<char> = rest.chars().collect();
            let mut k = 0usize;
            while k < bytes.len() {
                let c = bytes[k];
                let numeric = c.is_ascii_digit() || c == '-' || c == '+' || c == '_' || c == 'e' || c == 'E' || c == 'i' || c == 'n' || c == 'f' || c == 'N' || c == 'a';
                // a '.' belongs to the number only when a digit follows ("12.5" yes, "12. Next" no)
                let dot_in_number = c == '.' && k + 1 < bytes.len() && bytes[k + 1].is_ascii_digit() && !(k + 2 < bytes.len() && bytes[k + 1] == '.' );
                if numeric || dot_in_number {
                    k += 1;
                    end = k;
                } else {
                    break;
                }
            }
            let b: String = bytes[..end].iter().collect();
            return Some((rel, b.trim().to_string(), is_len));
        }
    }
    None
}

/// a Rust-style range statement in the text (`0..100`, `-5..=5`): (low, high, high inclusive)
pub fn message_range(text: &str) -> Option<(i128, i128, bool)> {
    let b: Vec<char> = text.chars().collect();
    let mut i = 0usize;
    while i + 1 < b.len() {
        if b[i] == '.' && b[i + 1] == '.' {
            // number to the left
            let mut l = i;
            while l > 0 && (b[l - 1].is_ascii_digit() || b[l - 1] == '-' || b[l - 1] == '_') {
                l -= 1;
            }
            let left: String = b[l..i].iter().filter(|c| **c != '_').collect();
            let mut r = i + 2;
            let incl = r < b.len() && b[r] == '=';
            if incl {
                r += 1;
            }
            let mut e = r;
            while e < b.len() && (b[e].is_ascii_digit() || (e == r && b[e] == '-') || b[e] == '_') {
                e += 1;
            }
            let right: String = b[r..e].iter().filter(|c| **c != '_').collect();
            if let (Ok(x), Ok(y)) = (left.parse::<i128>(), right.parse::<i128>()) {
                return Some((x, y, incl));
            }
        }
        i += 1;
    }
    None
}

fn bound_debug_text(v: &Val) -> String {
    // how `{:#?}` of the inner type prints the bound
    match v {
        Val::I(x) => format!("{x:#?}"),
        Val::U(x) => format!("{x:#?}"),
        Val::F32(b) => format!("{:#?}", f32::from_bits(*b)),
        Val::F64(b) => format!("{:#?}", f64::from_bits(*b)),
        _ => String::new(),
    }
}

fn rel_holds(rel: Rel, x: &Val, b: &Val) -> bool {
    use std::cmp::Ordering::*;
    match (rel, pcmp(x, b)) {
        (Rel::Gt, Some(Greater)) => true,
        (Rel::Ge, Some(Greater)) | (Rel::Ge, Some(Equal)) => true,
        (Rel::Lt, Some(Less)) => true,
        (Rel::Le, Some(Less)) | (Rel::Le, Some(Equal)) => true,
        _ => false,
    }
}

pub fn c16(cx: &Ctx) -> Report {
    let tier = cx.tier;
    let mut rep = for_subjects(cx, "C16", |d| !d.std_validators().is_empty() && d.family() != Family::Any && d.std_validators().iter().any(|v| v.bound().is_some()), |i, d, s, r| {
        let dom = domain::domain(d, tier);
        let vs = d.std_validators();
        // collect the Display text of every variant that occurs
        let mut texts: std::collections::BTreeMap<String, (String, Val)> = Default::default();
        for raw in &dom {
            if let Outcome::Err { variant, display } = s.construct(raw) {
                texts.entry(variant).or_insert((display, raw.clone()));
            }
            r.evaluations += 1;
        }
        // (0) every single rejection: the relation stated by the reported text must be FALSE for the rejected
        // value ("a value the rule admits is never described as forbidden")
        for raw in &dom {
            if let Outcome::Err { display, variant } = s.construct(raw) {
                let Some((rel, btxt, is_len)) = message_relation(&display) else { continue };
                let sv = refsem::sanitize(d, raw);
                if sv.is_nan() {
                    continue;
                }
                // the bound the text names, read back in the inner type
                let bound: Option<Val> = vs.iter().filter_map(|v| v.bound()).map(|b| b.v.clone()).find(|bv| bound_debug_text(bv) == btxt);
                let Some(bv) = bound else { continue };
                let subject_val = if is_len { Val::U(refsem::char_count(sv.as_str())) } else { sv.clone() };
                r.evaluations += 1;
                if rel_holds(rel, &subject_val, &bv) {
                    r.violate(mkviol("C16", i, d, "Display", raw.show(), format!("the reported rule ({rel:?} {btxt}) is violated by the value"), format!("{variant}: {display}"), &format!("wrong-text:{}:rule-not-violated", d.family_name())));
                }
            }
        }
        for (vi, vd) in vs.iter().enumerate() {
            let Some(b) = vd.bound() else { continue };
            let Some((text, witness)) = texts.get(vd.variant()) else {
                r.hist("variant-never-triggered", 1);
                continue;
            };
            r.states += 1;
            r.hist(&format!("{}:{}", d.family_name(), vd.kind_name()), 1);
            // (1) names the type and the bound
            if !text.contains(&d.name) {
                r.violate(mkviol("C16", i, d, "Display", witness.show(), format!("text names the newtype {}", d.name), text.clone(), &format!("wrong-text:{}:no-type-name", vd.kind_name())));
            }
            let btxt = bound_debug_text(&b.v);
            // (2) the stated relation
            let Some((rel, bound_txt, is_len)) = message_relation(text) else {
                r.machinery_errors.push(format!("C16 undecided: no relation extractable from {text:?} ({})", decl_text(d)));
                continue;
            };
            if bound_txt != btxt {
                r.violate(mkviol("C16", i, d, "Display", witness.show(), format!("text states the declared bound {btxt}"), text.clone(), &format!("wrong-text:{}:bound", vd.kind_name())));
                continue;
            }
            if is_len != matches!(vd, Vd::LenCharMin(_) | Vd::LenCharMax(_)) {
                r.violate(mkviol("C16", i, d, "Display", witness.show(), "length wording iff length rule".into(), text.clone(), &format!("wrong-text:{}:subject", vd.kind_name())));
            }
            // evaluate the stated relation on every input whose other rules pass
            let mut lie: Option<(Val, bool, bool)> = None;
            let mut checked = 0u64;
            for raw in &dom {
                let sv = refsem::sanitize(d, raw);
                if sv.is_nan() {
                    continue;
                }
                let others_ok = vs.iter().enumerate().all(|(j, o)| j == vi || !refsem::violated(d.inner, o, &sv));
                if !others_ok {
                    continue;
                }
                let subject_val = if is_len { Val::U(refsem::char_count(sv.as_str())) } else { sv.clone() };
                let stated = rel_holds(rel, &subject_val, &b.v);
                let accepted = s.construct(raw).is_ok();
                r.evaluations += 1;
                r.transitions += 1;
                checked += 1;
                if stated != accepted && lie.is_none() {
                    lie = Some((raw.clone(), stated, accepted));
                }
            }
            r.distinct_nontrivial += checked;
            if let Some((raw, stated, accepted)) = lie {
                r.violate(mkviol(
                    "C16",
                    i,
                    d,
                    "Display",
                    raw.show(),
                    format!("stated relation ({rel:?} {btxt}) holds={stated} must equal accepted={accepted}"),
                    text.clone(),
                    &format!("wrong-text:{}:{}", d.family_name(), vd.kind_name()),
                ));
            }
            // (2b) a range stated anywhere in the text (e.g. "Valid range: 0..100") is a second literal
            // constraint: it must admit exactly the values the declaration's bound validators admit
            if let (Some((rlo, rhi, incl)), Family::Int) = (message_range(text), d.family()) {
                let mut lie: Option<(Val, bool, bool)> = None;
                for raw in &dom {
                    let sv = refsem::sanitize(d, raw);
                    let x = match &sv {
                        Val::I(x) => *x,
                        Val::U(x) => match i128::try_from(*x) {
                            Ok(y) => y,
                            Err(_) => continue,
                        },
                        _ => continue,
                    };
                    let in_range = x >= rlo && (x < rhi || (incl && x == rhi));
                    let bounds_ok = vs.iter().all(|o| o.bound().is_none() || !refsem::violated(d.inner, o, &sv));
                    let others_ok = vs.iter().all(|o| o.bound().is_some() || !refsem::violated(d.inner, o, &sv));
                    if !others_ok {
                        continue;
                    }
                    let accepted = s.construct(raw).is_ok();
                    r.evaluations += 1;
                    if (in_range != bounds_ok || in_range != accepted) && lie.is_none() {
                        lie = Some((raw.clone(), in_range, accepted));
                    }
                }
                if let Some((raw, stated, accepted)) = lie {
                    r.violate(mkviol("C16", i, d, "Display", raw.show(), format!("stated range {rlo}..{}{rhi} contains the value = {stated} must equal accepted = {accepted}", if incl { "=" } else { "" }), text.clone(), &format!("wrong-text:{}:{}:range", d.family_name(), vd.kind_name())));
                }
            }
            // (3) the same text embedded by FromStr / serde
            if d.family() != Family::Str && d.derives(Tr::FromStr) {
                let t = match witness {
                    Val::I(x) => format!("{x}"),
                    Val::U(x) => format!("{x}"),
                    Val::F32(b) => format!("{:?}", f32::from_bits(*b)),
                    Val::F64(b) => format!("{:?}", f64::from_bits(*b)),
                    _ => String::new(),
                };
                if let Outcome::Err { display, variant } = s.from_str(&t) {
                    let want = format!("Failed to parse {}: {}", d.name, text);
                    r.evaluations += 1;
                    if variant == vd.variant() && display != want {
                        r.violate(mkviol("C16", i, d, "FromStr error text", t, want, display, &format!("wrong-text:{}:fromstr-embedding", vd.kind_name())));
                    }
                }
            }
            if d.derives(Tr::Deserialize) {
                let int_ty = d.inner.int_ty();
                let doc = DocVal::Newtype(s.type_name(), Box::new(docval_of(witness, int_ty)));
                for fmt in ALL_FMT {
                    // JSON has no encoding for non-finite floats (serde_json writes `null`): such a document does not
                    // carry the witness, the inner type's own error is all a deserializer can report
                    if fmt == Fmt::Json && matches!(witness, Val::F32(_) | Val::F64(_)) && !witness.is_finite_float() {
                        continue;
                    }
                    if let Ok(bytes) = encode(fmt, &doc) {
                        if let DeOut::Err(e) = s.de(fmt, Pos::Top, &bytes) {
                            r.evaluations += 1;
                            let want = format!("{} Expected valid {}", text, d.name);
                            if !e.contains(&want) {
                                r.violate(mkviol("C16", i, d, &format!("serde error text {fmt:?}"), witness.show(), format!("contains {want:?}"), e, &format!("wrong-text:{}:serde-embedding", vd.kind_name())));
                            }
                        }
                    }
                }
            }
            if r.samples.len() < 2 {
                r.samples.push(json!({"decl": decl_text(d), "variant": vd.variant(), "text": text, "extracted_relation": format!("{rel:?}"), "extracted_bound": bound_txt, "inputs_checked": checked}));
            }
        }
        r.traces_validated_against_impl += r.evaluations;
    });
    rep.rule = "for every bound validator of every subject: the Display text must name the newtype and print the bound as the inner type does; the relation extracted from the text by a phrase lexicon is evaluated on every input of the domain whose other rules pass and must coincide with the constructor's verdict; FromStr and serde texts must embed the same text; non-trivial = (validator, input) pairs evaluated".into();
    rep
}

// ------------------------------------------------------------------------------------------------
// helpers for obtainable values

/// distinct stored values obtainable from the domain (via REF, cross-checked by C01)
pub fn obtainable(d: &Decl, dom: &[Val], cap: usize) -> Vec<Val> {
    let mut seen: BTreeSet<Val> = BTreeSet::new();
    for raw in dom {
        if let Ok(v) = refsem::construct(d, raw) {
            seen.insert(v);
        }
    }
    let all: Vec<Val> = seen.into_iter().collect();
    if all.len() <= cap {
        return all;
    }
    // evenly spaced, always keeping both ends and neighbours of the ends
    let mut out: BTreeSet<Val> = BTreeSet::new();
    let n = all.len();
    for k in 0..cap {
        out.insert(all[k * (n - 1) / (cap - 1)].clone());
    }
    for k in 0..4.min(n) {
        out.insert(all[k].clone());
        out.insert(all[n - 1 - k].clone());
    }
    out.into_iter().collect()
}

// ------------------------------------------------------------------------------------------------
// C11 – explicit-state BFS over (subject, stored value)

/// characters a "smarter" trim might be tempted to treat specially although `char::is_whitespace` does not
/// (byte order mark, zero-width and bidi format characters, soft hyphen, C0/C1 separators, Mongolian vowel separator)
pub const TRIM_SUSPECTS: [char; 24] = [
    '\u{FEFF}', '\u{200B}', '\u{200C}', '\u{200D}', '\u{2060}', '\u{180E}', '\u{00AD}', '\u{061C}', '\u{200E}', '\u{200F}', '\u{202A}', '\u{202C}', '\u{202E}', '\u{2066}', '\u{2069}', '\u{0000}', '\u{001C}',
    '\u{001F}', '\u{007F}', '\u{0085}', '\u{FFFE}', '\u{FFFD}', '\u{E000}', '\u{10FFFF}',
];

pub fn special_chars() -> Vec<char> {
    let mut v: Vec<char> = TRIM_SUSPECTS.to_vec();
    for c in '\0'..=char::MAX {
        let lo: Vec<char> = c.to_lowercase().collect();
        let up: Vec<char> = c.to_uppercase().collect();
        if TRIM_SUSPECTS.contains(&c) {
            continue;
        }
        if c.is_whitespace() || lo.len() != 1 || up.len() != 1 || domain::SIGMA_THOROUGH.contains(&c) {
            v.push(c);
            continue;
        }
        // the Lowercase / Uppercase *property* disagrees with the case *mapping* (titlecase letters such as 'ǅ'
        // are neither, yet both mappings change them): shortcuts keyed on is_uppercase()/is_lowercase() go wrong
        if (lo[0] != c && !c.is_uppercase()) || (up[0] != c && !c.is_lowercase()) {
            v.push(c);
            continue;
        }
        // case mappings that do not round trip are the interesting ones for canonicity
        let back: Vec<char> = lo[0].to_uppercase().collect();
        let back2: Vec<char> = up[0].to_lowercase().collect();
        if (lo[0] != c && back != vec![c] && back.len() != 1) || (up[0] != c && back2 != vec![c] && back2.len() != 1) {
            v.push(c);
        }
    }
    v
}

pub fn special_chars_cached() -> &'static Vec<char> {
    static CELL: std::sync::OnceLock<Vec<char>> = std::sync::OnceLock::new();
    CELL.get_or_init(special_chars)
}

pub fn unicode_contexts(c: char) -> Vec<String> {
    let mut out = vec![];
    let cs = c.to_string();
    for (pre, post) in [("", ""), ("a", ""), ("", "a"), (" ", ""), ("", " "), ("Σ", ""), ("", "Σ"), ("A", "A"), ("\u{301}", ""), ("", "\u{301}"), ("aΣ", ""), ("\u{a0}", "\u{a0}"), ("İ", ""), ("", "ß"), ("", " a"), ("a ", "")] {
        out.push(format!("{pre}{cs}{post}"));
    }
    out
}

pub fn c11(cx: &Ctx) -> Report {
    let tier = cx.tier;
    let specials: Vec<char> = if tier == Tier::Quick { special_chars() } else { ('\0'..=char::MAX).collect() };
    // in scope: built-in sanitizers only, or custom ones that are idempotent AND whose whole chain is idempotent
    // under the reference semantics on the complete input domain (a chain of idempotent functions need not be:
    // `trim, with = strip_x` maps " x a" to " a" and then to "a")
    let tier_ = cx.tier;
    let in_scope = move |d: &Decl| -> bool {
        if d.inner == Inner::Cow {
            return false;
        }
        if d.chain_idempotent() {
            return true;
        }
        let customs_idempotent = d.sans.iter().all(|x| if let San::With(f, _) = x { f.idempotent() } else { true });
        customs_idempotent
            && domain::domain(d, tier_).iter().all(|raw| {
                let once = refsem::sanitize(d, raw);
                refsem::sanitize(d, &once) == once
            })
    };
    let mut rep = for_subjects(cx, "C11", in_scope, |i, d, s, r| {
        let dom = domain::domain(d, tier);
        // initial states: everything the constructor accepts on the C01 domain
        let mut init: BTreeSet<Val> = BTreeSet::new();
        for raw in &dom {
            if let Outcome::Ok(v) = s.construct(raw) {
                if v != *raw {
                    r.distinct_nontrivial += 1;
                }
                init.insert(v);
            }
            r.evaluations += 1;
        }
        // string subjects without `with`: every special / every Unicode scalar in 16 contexts
        if d.family() == Family::Str && !d.sans.iter().any(|x| matches!(x, San::With(..))) && !d.sans.is_empty() {
            let every = if tier == Tier::Thorough && i % 4 != 0 { 16 } else { 1 };
            for (k, c) in specials.iter().enumerate() {
                if every > 1 && k % every != (i % every) && !c.is_whitespace() && (*c as u32) > 0x3000 {
                    continue;
                }
                for t in unicode_contexts(*c) {
                    r.evaluations += 1;
                    if let Outcome::Ok(v) = s.construct_str(&t) {
                        // check immediately (do not keep 10^7 states in memory)
                        let again = s.construct(&v);
                        r.transitions += 1;
                        if again != Outcome::Ok(v.clone()) {
                            r.violate(mkviol("C11", i, d, "into_inner->try_new", format!("{t:?} -> {}", v.show()), format!("Ok({})", v.show()), again.show(), "not-canonical"));
                        }
                        if v.as_str() != t {
                            r.distinct_nontrivial += 1;
                        }
                    }
                }
            }
            r.hist("unicode-context-sweeps", 1);
        }
        // every other derived entry point is a way to obtain a value too (From / TryFrom on the raw domain, FromStr
        // on the C06 text set): whatever they return must be canonical, whether or not it is what the
        // constructor would have returned (that comparison is C03's)
        {
            let mut seen: HashSet<Val> = HashSet::new();
            let mut check = |entry: &str, shown: String, o: Outcome, r: &mut Report| {
                r.evaluations += 1;
                if let Outcome::Ok(v) = o {
                    if init.contains(&v) || !seen.insert(v.clone()) {
                        return;
                    }
                    let again = s.construct(&v);
                    r.transitions += 1;
                    if again != Outcome::Ok(v.clone()) {
                        r.violate(mkviol("C11", i, d, &format!("{entry}->into_inner->try_new"), format!("{shown} -> {}", v.show()), format!("Ok({})", v.show()), again.show(), "not-canonical"));
                    }
                }
            };
            check("Default", "default()".to_string(), s.default(), r);
            for raw in &dom {
                check("TryFrom", raw.show(), s.try_from_inner(raw), r);
                check("From", raw.show(), s.from_inner(raw), r);
            }
            if d.derives(Tr::FromStr) && d.family() != Family::Str {
                for t in fromstr_texts(d, &dom, tier) {
                    let o = s.from_str(&t);
                    check("FromStr", format!("{t:?}"), o, r);
                }
            }
            if d.derives(Tr::FromStr) && d.family() == Family::Str {
                for raw in &dom {
                    let o = s.from_str(raw.as_str());
                    check("FromStr", raw.show(), o, r);
                }
            }
            r.hist("entry-point-sweeps", 1);
        }
        // Arbitrary is one more way to obtain a value: whatever it returns must be canonical too
        // (only where idempotence of the chain does not rest on the bounded domain: the generator draws
        // characters outside it)
        if d.derives(Tr::Arbitrary) && crate::explore2::c09_in_scope(d) && d.chain_idempotent() {
            let mut seen: HashSet<Val> = HashSet::new();
            for b in crate::explore2::arbitrary_inputs(d, tier) {
                r.evaluations += 1;
                if let (Outcome::Ok(v), _) = s.arbitrary(&b) {
                    if !seen.insert(v.clone()) {
                        continue;
                    }
                    let again = s.construct(&v);
                    r.transitions += 1;
                    if again != Outcome::Ok(v.clone()) {
                        r.violate(mkviol("C11", i, d, "Arbitrary->into_inner->try_new", format!("{} bytes -> {}", b.len(), v.show()), format!("Ok({})", v.show()), again.show(), "not-canonical"));
                    }
                }
            }
            r.hist("arbitrary-entry-sweeps", 1);
        }
        let mut visited: HashSet<Val> = HashSet::new();
        let mut frontier: Vec<(Val, u32, String)> = init.iter().map(|v| (v.clone(), 0u32, String::new())).collect();
        let int_ty = d.inner.int_ty();
        let mut nonloop = 0u64;
        while let Some((v, depth, path)) = frontier.pop() {
            if !visited.insert(v.clone()) {
                continue;
            }
            r.states += 1;
            let mut edges: Vec<(&'static str, Outcome)> = vec![];
            edges.push(("into_inner->try_new", s.construct(&v)));
            let o = s.try_from_inner(&v);
            if o != Outcome::Absent {
                edges.push(("into_inner->TryFrom", o));
            }
            let o = s.from_inner(&v);
            if o != Outcome::Absent {
                edges.push(("into_inner->From", o));
            }
            let w = s.views(&v);
            if let Some(text) = &w.display {
                let o = s.from_str(text);
                if o != Outcome::Absent {
                    // floats print shortest round-trip decimal; integers exact; strings verbatim
                    edges.push(("Display->FromStr", o));
                }
            }
            if let Some(c) = &w.clone_inner {
                edges.push(("clone", Outcome::Ok(c.clone())));
            }
            if let Some(a) = &w.as_ref {
                edges.push(("AsRef->to_owned->try_new", s.construct(a)));
            }
            for fmt in ALL_FMT {
                let so = s.ser(fmt, &v);
                if so.inner_roundtrips == Some(true) {
                    if let Some(o) = so.roundtrip {
                        edges.push((match fmt {
                            Fmt::Json => "Serialize->Deserialize(json)",
                            Fmt::Ron => "Serialize->Deserialize(ron)",
                            Fmt::RonNamed => "Serialize->Deserialize(ron with struct names)",
                            Fmt::MsgPack => "Serialize->Deserialize(msgpack)",
                        }, o));
                    }
                }
            }
            let _ = int_ty;
            for (name, o) in edges {
                r.transitions += 1;
                r.evaluations += 1;
                r.hist(name, 1);
                match &o {
                    Outcome::Ok(v2) if *v2 == v || (v.is_nan() && v2.is_nan()) => {}
                    Outcome::Ok(v2) => {
                        nonloop += 1;
                        r.violate(mkviol("C11", i, d, name, format!("{}{}", path, v.show()), format!("Ok({}) (self loop)", v.show()), o.show(), "not-canonical"));
                        if depth < 4 {
                            frontier.push((v2.clone(), depth + 1, format!("{path}{} -{name}-> ", v.show())));
                        }
                    }
                    _ => {
                        nonloop += 1;
                        r.violate(mkviol("C11", i, d, name, format!("{}{}", path, v.show()), format!("Ok({}) (self loop)", v.show()), o.show(), if matches!(o, Outcome::Panic(_)) { "panic" } else { "obtainable-value-rejected" }));
                    }
                }
            }
        }
        r.hist("non-self-loop-transitions", nonloop);
        r.traces_validated_against_impl += r.transitions;
        if r.samples.is_empty() && i % 9 == 0 {
            if let Some(v) = init.iter().nth(init.len() / 2) {
                r.samples.push(json!({"decl": decl_text(d), "state": v.show(), "edges": ["into_inner->try_new", "into_inner->TryFrom", "Display->FromStr", "clone", "AsRef->to_owned->try_new", "Serialize->Deserialize x3"], "all_self_loops": nonloop == 0}));
            }
        }
    });
    rep.rule = "explicit-state BFS: states = (declaration, stored value) obtained from the C01 domain (plus Unicode-context sweeps for string sanitizer lists); transitions = derived entry points applied to the state's own inner value / Display / serialisation; invariant: every transition is a self loop returning Ok; non-loop successors are explored to depth 4".into();
    rep.bounds.insert("depth".into(), json!(4));
    rep.bounds.insert("unicode".into(), json!(if tier == Tier::Quick { "all White_Space, all scalars whose case mapping changes length or does not round trip, Σ – each in 16 contexts" } else { "every Unicode scalar value in 16 contexts on a quarter of the subjects, every 16th (+ all below U+3000 and all White_Space) on the rest" }));
    rep
}

// ------------------------------------------------------------------------------------------------
// C13

pub fn hash_of_val(inner: Inner, v: &Val) -> Vec<Vec<u8>> {
    let inner = if inner == Inner::GenT { Inner::Int(IntTy::I32) } else { inner };
    match (inner, v) {
        (Inner::Int(t), _) => match (t, v) {
            (IntTy::U8, Val::U(x)) => rec_hash(&(*x as u8)),
            (IntTy::U16, Val::U(x)) => rec_hash(&(*x as u16)),
            (IntTy::U32, Val::U(x)) => rec_hash(&(*x as u32)),
            (IntTy::U64, Val::U(x)) => rec_hash(&(*x as u64)),
            (IntTy::U128, Val::U(x)) => rec_hash(x),
            (IntTy::Usize, Val::U(x)) => rec_hash(&(*x as usize)),
            (IntTy::I8, Val::I(x)) => rec_hash(&(*x as i8)),
            (IntTy::I16, Val::I(x)) => rec_hash(&(*x as i16)),
            (IntTy::I32, Val::I(x)) => rec_hash(&(*x as i32)),
            (IntTy::I64, Val::I(x)) => rec_hash(&(*x as i64)),
            (IntTy::I128, Val::I(x)) => rec_hash(x),
            (IntTy::Isize, Val::I(x)) => rec_hash(&(*x as isize)),
            _ => vec![],
        },
        (_, Val::S(s)) => rec_hash(s),
        (_, Val::V(x)) => rec_hash(x),
        (_, Val::P(x, y)) => rec_hash(&ulib::Point { x: *x, y: *y }),
        _ => vec![],
    }
}

pub fn display_of_val(v: &Val) -> Option<String> {
    Some(match v {
        Val::I(x) => format!("{x}"),
        Val::U(x) => format!("{x}"),
        Val::F32(b) => format!("{}", f32::from_bits(*b)),
        Val::F64(b) => format!("{}", f64::from_bits(*b)),
        Val::S(s) => s.clone(),
        Val::P(x, y) => format!("{}", ulib::Point { x: *x, y: *y }),
        Val::V(_) => return None,
    })
}

pub fn c13(cx: &Ctx) -> Report {
    let tier = cx.tier;
    let mut rep = for_subjects(cx, "C13", |_| true, |i, d, s, r| {
        let dom = domain::domain(d, tier);
        let cap = if tier == Tier::Quick { 48 } else { 160 };
        let vals = obtainable(d, &dom, cap);
        let int_ty = d.inner.int_ty();
        // also raw inputs that differ from their stored value (case / whitespace before sanitisation)
        let mut raws: Vec<Val> = vals.clone();
        for raw in dom.iter() {
            if raws.len() >= cap + 24 {
                break;
            }
            if let Ok(v) = refsem::construct(d, raw) {
                if v != *raw {
                    raws.push(raw.clone());
                }
            }
        }
        for raw in &raws {
            let Ok(stored) = refsem::construct(d, raw) else { continue };
            let w = s.views(raw);
            r.evaluations += 1;
            r.states += 1;
            if !w.constructed {
                r.violate(mkviol("C13", i, d, "views", raw.show(), format!("constructible ({})", stored.show()), "constructor rejected".into(), "unobtainable"));
                continue;
            }
            if let Some(p) = &w.panic {
                r.violate(mkviol("C13", i, d, "views", raw.show(), "no panic".into(), p.clone(), "panic"));
            }
            let chk = |name: &str, got: &Option<Val>, r: &mut Report| {
                if let Some(g) = got {
                    r.transitions += 1;
                    r.hist(name, 1);
                    if *g != stored {
                        r.violate(mkviol("C13", i, d, name, raw.show(), stored.show(), g.show(), "view-differs"));
                    }
                }
            };
            chk("AsRef", &w.as_ref, r);
            chk("Deref", &w.deref, r);
            chk("Borrow", &w.borrow, r);
            chk("Borrow<str>", &w.borrow_str, r);
            chk("Into", &w.into, r);
            chk("Clone", &w.clone_inner, r);
            if w.clone_eq == Some(false) && !stored.is_nan() {
                r.violate(mkviol("C13", i, d, "Clone", raw.show(), "clone == self".into(), "false".into(), "clone-not-equal"));
            }
            // comparison with ITSELF (same object): must still be the inner value's answer (NaN != NaN)
            if let Some(e) = w.eq_self {
                r.transitions += 1;
                let want = pcmp(&stored, &stored) == Some(std::cmp::Ordering::Equal);
                if e != want {
                    r.violate(mkviol("C13", i, d, "PartialEq (value compared with itself)", raw.show(), format!("{want}"), format!("{e}"), "eq-differs"));
                }
            }
            if let Some(p) = w.partial_self {
                r.transitions += 1;
                if p != pcmp(&stored, &stored) {
                    r.violate(mkviol("C13", i, d, "PartialOrd (value compared with itself)", raw.show(), format!("{:?}", pcmp(&stored, &stored)), format!("{p:?}"), "partial-cmp-differs"));
                }
            }
            if w.ptr_same == Some(false) {
                r.violate(mkviol("C13", i, d, "reference views", raw.show(), "all reference views alias the stored value".into(), "different addresses".into(), "view-not-aliasing"));
            }
            if let Some(txt) = &w.display {
                r.transitions += 1;
                r.hist("Display", 1);
                if Some(txt.clone()) != display_of_val(&stored) {
                    r.violate(mkviol("C13", i, d, "Display", raw.show(), format!("{:?}", display_of_val(&stored)), format!("{txt:?}"), "display-differs"));
                }
            }
            for (spec, got, want) in &w.display_fmt {
                r.transitions += 1;
                r.hist("Display with format options", 1);
                if got != want {
                    r.violate(mkviol("C13", i, d, &format!("Display {spec}"), raw.show(), format!("{want:?} (what the inner value prints)"), format!("{got:?}"), "display-ignores-format-options"));
                }
            }
            if let Some(h) = &w.hash_t {
                r.transitions += 1;
                r.hist("Hash", 1);
                let hi = hash_of_val(d.inner, &stored);
                if *h != hi {
                    r.violate(mkviol("C13", i, d, "Hash", raw.show(), format!("{hi:?}"), format!("{h:?}"), "hash-differs-from-inner"));
                }
                if let Some(hb) = &w.hash_borrow_str {
                    if hb != h {
                        r.violate(mkviol("C13", i, d, "Hash vs Borrow<str>", raw.show(), format!("{h:?}"), format!("{hb:?}"), "hash-differs-from-borrowed"));
                    }
                }
            }
            if let Val::V(xs) = &stored {
                let want: Vec<Val> = xs.iter().map(|x| Val::I(*x as i128)).collect();
                for (name, got) in [("IntoIterator(&T)", &w.iter_ref), ("IntoIterator(T)", &w.iter_val)] {
                    if let Some(g) = got {
                        r.transitions += 1;
                        r.hist(name, 1);
                        if *g != want {
                            r.violate(mkviol("C13", i, d, name, raw.show(), format!("{want:?}"), format!("{g:?}"), "iteration-differs"));
                        }
                    }
                }
            }
            if let Some(ev) = &w.ser_events {
                // C10 (1): serialize_newtype_struct(name) followed by exactly the inner events
                let mut want = vec![format!("serialize_newtype_struct({})", d.name)];
                want.extend(crate::serde_h::record_events(&docval_of(&stored, int_ty)));
                if *ev != want {
                    r.violate(mkviol("C13", i, d, "Serialize events", raw.show(), format!("{want:?}"), format!("{ev:?}"), "serialize-not-transparent"));
                }
            }
        }
        // all ordered pairs (the harness rebuilds values from their stored form, which needs an
        // idempotent sanitizer chain – the user's contract for custom sanitizers)
        let stored_of: Vec<Val> = if d.chain_idempotent() { vals.clone() } else { vec![] };
        let mut pairs = 0u64;
        for a in &stored_of {
            for b in &stored_of {
                let o = s.cmp(a, b);
                if !o.constructed {
                    continue;
                }
                pairs += 1;
                r.evaluations += 1;
                let want_eq = pcmp(a, b) == Some(std::cmp::Ordering::Equal) && !a.is_nan();
                if let Some(e) = &o.eq {
                    r.transitions += 1;
                    match e {
                        Ok(x) if *x == want_eq => {}
                        other => r.violate(mkviol("C13", i, d, "PartialEq", format!("{} == {}", a.show(), b.show()), format!("{want_eq}"), format!("{other:?}"), "eq-differs")),
                    }
                }
                if let Some(p) = &o.partial {
                    r.transitions += 1;
                    match p {
                        Ok(x) if *x == pcmp(a, b) => {}
                        other => r.violate(mkviol("C13", i, d, "PartialOrd", format!("{} ? {}", a.show(), b.show()), format!("{:?}", pcmp(a, b)), format!("{other:?}"), "partial-cmp-differs")),
                    }
                }
                if let Some(c) = &o.cmp {
                    r.transitions += 1;
                    // the inner type's own `Ord`: for ulib::FBox that is the IEEE total order, NOT its PartialOrd
                    let inner_ord = if d.inner == Inner::FBox { Some(a.as_f32().total_cmp(&b.as_f32())) } else { pcmp(a, b) };
                    match (c, inner_ord) {
                        (Ok(x), Some(y)) if *x == y => {}
                        (other, w) => r.violate(mkviol("C13", i, d, "Ord", format!("{} ? {}", a.show(), b.show()), format!("{w:?}"), format!("{other:?}"), "cmp-differs")),
                    }
                }
                if let Some(ops) = &o.ops {
                    r.transitions += 1;
                    use std::cmp::Ordering::*;
                    let pc = pcmp(a, b);
                    let want = [pc == Some(Less), matches!(pc, Some(Less) | Some(Equal)), pc == Some(Greater), matches!(pc, Some(Greater) | Some(Equal))];
                    match ops {
                        Ok(x) if *x == want => {}
                        other => r.violate(mkviol("C13", i, d, "PartialOrd operators [<, <=, >, >=]", format!("{} ? {}", a.show(), b.show()), format!("{want:?}"), format!("{other:?}"), "operators-differ")),
                    }
                }
                if let Some(mm) = &o.maxmin {
                    r.transitions += 1;
                    // std: `max` returns the second argument unless the first is greater; `min` the first unless the second is less
                    let pc = pcmp(a, b);
                    let want = if d.inner == Inner::FBox {
                        // an inner type whose PartialOrd and Ord disagree: whatever std's provided methods do with that,
                        // the newtype must do the same - ask the inner type itself
                        let (x, y) = (ulib::FBox(a.as_f32()), ulib::FBox(b.as_f32()));
                        [Val::f32(Ord::max(x, y).0), Val::f32(Ord::min(x, y).0)]
                    } else {
                        [if pc == Some(std::cmp::Ordering::Greater) { a.clone() } else { b.clone() }, if pc == Some(std::cmp::Ordering::Greater) { b.clone() } else { a.clone() }]
                    };
                    match mm {
                        Ok(x) if *x == want => {}
                        other => r.violate(mkviol("C13", i, d, "Ord::max / Ord::min", format!("{} , {}", a.show(), b.show()), format!("[{}, {}]", want[0].show(), want[1].show()), format!("{other:?}").chars().take(200).collect(), "max-min-differ")),
                    }
                }
                if let Some(cf) = &o.clone_from {
                    r.transitions += 1;
                    match cf {
                        Ok(x) if x == b => {}
                        other => r.violate(mkviol("C13", i, d, "Clone::clone_from", format!("{} <- {}", a.show(), b.show()), b.show(), format!("{other:?}").chars().take(200).collect(), "clone_from-differs")),
                    }
                }
                if let Some(ne) = &o.ne {
                    r.transitions += 1;
                    match ne {
                        Ok(x) if *x == !want_eq => {}
                        other => r.violate(mkviol("C13", i, d, "PartialEq::ne", format!("{} != {}", a.show(), b.show()), format!("{}", !want_eq), format!("{other:?}"), "ne-differs")),
                    }
                }
            }
        }
        r.hist("pairs", pairs);
        r.distinct_nontrivial += pairs;
        // map lookups through the borrowed form
        if let Some(res) = s.hashmap_lookup(&stored_of) {
            r.evaluations += 1;
            r.hist("HashMap::get(borrowed)", 1);
            if res != Ok(true) {
                r.violate(mkviol("C13", i, d, "HashMap::get(borrowed form)", format!("{} keys", stored_of.len()), "every key found".into(), format!("{res:?}"), "borrow-lookup-fails"));
            }
        }
        if let Some(res) = s.btree_keys(&stored_of).filter(|_| d.inner != Inner::FBox) {
            r.evaluations += 1;
            r.hist("BTreeMap", 1);
            let mut want = stored_of.clone();
            want.sort_by(|a, b| pcmp(a, b).unwrap_or(std::cmp::Ordering::Equal));
            want.dedup_by(|a, b| pcmp(a, b) == Some(std::cmp::Ordering::Equal));
            match res {
                Ok(keys) if keys.len() == want.len() && keys.iter().zip(want.iter()).all(|(x, y)| pcmp(x, y) == Some(std::cmp::Ordering::Equal)) => {}
                other => r.violate(mkviol("C13", i, d, "BTreeMap keys", format!("{} keys", stored_of.len()), "keys in inner order".into(), format!("{other:?}").chars().take(300).collect(), "btree-order-differs")),
            }
        }
        r.traces_validated_against_impl += r.evaluations;
        if r.samples.is_empty() && i % 11 == 0 {
            if let Some(v) = raws.last() {
                let w = s.views(v);
                r.samples.push(json!({"decl": decl_text(d), "raw": v.show(), "as_ref": w.as_ref.map(|x| x.show()), "display": w.display, "hash_writes": w.hash_t.map(|h| h.len()), "pairs": pairs}));
            }
        }
    });
    rep.rule = "for every obtainable value (capped, evenly spaced incl. extremes, plus raw inputs that sanitisation changes): every derived view is compared with REF's stored value, Display with the inner Display, Hash write sequence with the inner (and borrowed) value's; all ordered pairs: ==, partial_cmp, cmp against the inner comparison; HashMap/BTreeMap lookups through the borrowed form; non-trivial = pairs compared".into();
    rep
}

// ------------------------------------------------------------------------------------------------
// C10

pub fn c10(cx: &Ctx) -> Report {
    let tier = cx.tier;
    let mut rep = for_subjects(cx, "C10", |d| d.derives(Tr::Serialize) && d.chain_idempotent(), |i, d, s, r| {
        let dom = domain::domain(d, tier);
        let cap = if tier == Tier::Quick { 400 } else { 4000 };
        let vals = obtainable(d, &dom, cap);
        let int_ty = d.inner.int_ty();
        for v in &vals {
            if !refsem::valid_and_canonical(d, v) {
                continue;
            }
            for fmt in ALL_FMT {
                let o = s.ser(fmt, v);
                let Some(tb) = &o.t_bytes else { continue };
                r.evaluations += 1;
                r.transitions += 1;
                r.states += 1;
                r.hist(&format!("{fmt:?}"), 1);
                let show = |b: &Option<Result<Vec<u8>, String>>| match b {
                    Some(Ok(x)) => match std::str::from_utf8(x) {
                        Ok(s) if fmt != Fmt::MsgPack => format!("{s:?}"),
                        _ => format!("{x:02x?}"),
                    },
                    other => format!("{other:?}"),
                };
                if Some(tb) != o.plain_bytes.as_ref() {
                    r.violate(mkviol("C10", i, d, &format!("serialize {fmt:?}"), v.show(), format!("same bytes as a plain serde newtype: {}", show(&o.plain_bytes)), show(&o.t_bytes), "not-a-newtype-struct"));
                }
                if fmt != Fmt::Ron && fmt != Fmt::RonNamed && Some(tb) != o.inner_bytes.as_ref() {
                    r.violate(mkviol("C10", i, d, &format!("serialize {fmt:?}"), v.show(), format!("same bytes as the inner value: {}", show(&o.inner_bytes)), show(&o.t_bytes), "not-transparent"));
                }
                // the wrapped document decodes, via the plain newtype, to the same inner value
                let _ = int_ty;
                if o.inner_roundtrips == Some(true) {
                    if let Some(rt) = &o.roundtrip {
                        r.distinct_nontrivial += 1;
                        if *rt != Outcome::Ok(v.clone()) {
                            r.violate(mkviol("C10", i, d, &format!("round trip {fmt:?}"), v.show(), format!("Ok({})", v.show()), rt.show(), if matches!(rt, Outcome::Panic(_)) { "panic" } else { "roundtrip-differs" }));
                        }
                    }
                } else {
                    r.hist("inner-does-not-roundtrip", 1);
                }
            }
            // event log
            let w = s.views(v);
            if let Some(ev) = &w.ser_events {
                r.evaluations += 1;
                let mut want = vec![format!("serialize_newtype_struct({})", d.name)];
                want.extend(crate::serde_h::record_events(&docval_of(v, int_ty)));
                if *ev != want {
                    r.violate(mkviol("C10", i, d, "Serialize events", v.show(), format!("{want:?}"), format!("{ev:?}"), "serialize-not-transparent"));
                }
            }
        }
        r.traces_validated_against_impl += r.evaluations;
        if r.samples.is_empty() && i % 13 == 0 {
            if let Some(v) = vals.get(vals.len() / 2) {
                let o = s.ser(Fmt::Ron, v);
                r.samples.push(json!({"decl": decl_text(d), "value": v.show(), "ron": o.t_bytes.and_then(|b| b.ok()).map(|b| String::from_utf8_lossy(&b).to_string()), "roundtrip": o.roundtrip.map(|x| x.show())}));
            }
        }
    });
    rep.rule = "for every obtainable canonical value and each of JSON/RON/MessagePack: bytes == bytes of a plain serde-derived newtype of the same name; in JSON/MessagePack == bytes of the bare inner value; recorded Serializer call sequence == serialize_newtype_struct(name) + the inner value's own events; if the inner value round-trips in the format then from(to(v)) == v by bits; non-trivial = round trips performed".into();
    rep
}

// ------------------------------------------------------------------------------------------------
// C04

/// element documents for a subject: (description, element DocVal)
pub fn element_docs(d: &Decl, name: &'static str, vals: &[Val]) -> Vec<(String, DocVal)> {
    let int_ty = d.inner.int_ty();
    let mut out: Vec<(String, DocVal)> = vec![];
    for v in vals {
        let e = docval_of(v, int_ty);
        out.push((v.show(), DocVal::Newtype(name, Box::new(e.clone()))));
    }
    // bare (unwrapped) inner values – same in JSON/MessagePack, different in RON
    for v in vals.iter().take(6) {
        out.push((format!("bare {}", v.show()), docval_of(v, int_ty)));
    }
    // wrongly typed / out of range payloads
    let wrong: Vec<DocVal> = vec![
        DocVal::Str("5".into()),
        DocVal::Str("".into()),
        DocVal::F64(1.5),
        DocVal::F64(f64::NAN),
        DocVal::F64(f64::INFINITY),
        DocVal::F32(f32::NAN),
        DocVal::F32(f32::NEG_INFINITY),
        DocVal::F64(1e39),
        DocVal::F64(-0.0),
        DocVal::Bool(true),
        DocVal::Unit,
        DocVal::None,
        DocVal::Some(Box::new(DocVal::Int(IntTy::U8, Val::U(5)))),
        DocVal::Seq(vec![]),
        DocVal::Seq(vec![DocVal::Int(IntTy::I64, Val::I(1)), DocVal::Int(IntTy::I64, Val::I(2))]),
        DocVal::Map(vec![]),
        DocVal::Int(IntTy::U64, Val::U(u64::MAX as u128)),
        DocVal::Int(IntTy::I64, Val::I(i64::MIN as i128)),
        DocVal::Int(IntTy::U128, Val::U(u128::MAX)),
        DocVal::Int(IntTy::I128, Val::I(i128::MIN)),
        DocVal::Int(IntTy::I64, Val::I(-1)),
        DocVal::Int(IntTy::U16, Val::U(256)),
        DocVal::Int(IntTy::U32, Val::U(65536)),
        DocVal::Int(IntTy::I16, Val::I(-129)),
        DocVal::Int(IntTy::U8, Val::U(0)),
        DocVal::Int(IntTy::U8, Val::U(51)),
        DocVal::Bytes(vec![1, 2]),
        DocVal::Struct("Point", vec![("x", DocVal::Int(IntTy::I32, Val::I(1)))]),
        DocVal::Struct("Point", vec![("x", DocVal::Int(IntTy::I32, Val::I(1))), ("y", DocVal::Str("a".into()))]),
        DocVal::Str("  Ab x ".into()),
        DocVal::Str("ß\u{a0}🦀\"\\\n".into()),
    ];
    for wv in wrong {
        out.push((format!("wrong-typed {wv:?}"), DocVal::Newtype(name, Box::new(wv.clone()))));
        out.push((format!("wrong-typed bare {wv:?}"), wv));
    }
    // doubly wrapped / wrong struct name
    if let Some(v) = vals.first() {
        out.push(("wrong name".into(), DocVal::Newtype("Other", Box::new(docval_of(v, int_ty)))));
        out.push(("double wrap".into(), DocVal::Newtype(name, Box::new(DocVal::Newtype(name, Box::new(docval_of(v, int_ty)))))));
        out.push(("one-element seq".into(), DocVal::Seq(vec![docval_of(v, int_ty)])));
        out.push(("one-element tuple".into(), DocVal::Tuple(vec![docval_of(v, int_ty)])));
    }
    out
}

/// hand-written raw documents per format
pub fn raw_docs(fmt: Fmt) -> Vec<Vec<u8>> {
    match fmt {
        Fmt::Json => ["5", "05", "-0", "1e400", "1e2", "1.0", "255", "256", "-129", "\"\\u00df\"", "\"\\ud83e\\udd80\"", "\" a \"", "null", "[5]", "[[5]]", "{\"a\":5}", "5 ", " 5", "5,", "", "NaN", "\"5\"", "18446744073709551616", "340282366920938463463374607431768211456", "0.1", "1E-400", "[1,2]", "[]", "{\"x\":1,\"y\":2}", "{\"x\":1}", "{\"y\":2,\"x\":1}", "true", "1152921573326323713", "-1152921573326323713", "1.0000000596046447753906251", "16777217", "9007199254740993"]
            .iter()
            .map(|s| s.as_bytes().to_vec())
            .collect(),
        Fmt::RonNamed => vec![],
        Fmt::Ron => ["5", "(5)", "X(5)", "Nt0(5)", "inf", "-inf", "NaN", "(NaN)", "(inf)", "(-inf)", "(1e400)", "(1.0)", "(\"a\")", "(\" A \")", "((5))", "(5,)", "()", "(5, 6)", "Some(5)", "(Some(5))", "[5]", "([1,2])", "((x:1,y:2))", "(Point(x:1,y:2))", "(-0.0)", "(0x10)", "(1_000)", "(256)", "(-1)", "('a')", "(true)", "(\"\\u{df}\")", "(1152921573326323713)", "(1.0000000596046447753906251)", "(9007199254740993)"]
            .iter()
            .map(|s| s.as_bytes().to_vec())
            .collect(),
        Fmt::MsgPack => {
            let mut v: Vec<Vec<u8>> = vec![
                vec![0x05],
                vec![0xff],
                vec![0xcc, 0xff],
                vec![0xcd, 0x01, 0x00],
                vec![0xce, 0, 1, 0, 0],
                vec![0xcf, 0xff, 0xff, 0xff, 0xff, 0xff, 0xff, 0xff, 0xff],
                // 2^60 + 2^36 + 1: just above the midpoint of two adjacent f32 values and not representable in f64
                vec![0xcf, 0x10, 0x00, 0x00, 0x10, 0x00, 0x00, 0x00, 0x01],
                vec![0xd3, 0xef, 0xff, 0xff, 0xef, 0xff, 0xff, 0xff, 0xff],
                vec![0xd0, 0x80],
                vec![0xd1, 0xff, 0x7f],
                vec![0xd2, 0x80, 0, 0, 0],
                vec![0xd3, 0x80, 0, 0, 0, 0, 0, 0, 0],
                vec![0xca, 0x7f, 0xc0, 0x00, 0x00],
                vec![0xca, 0x7f, 0x80, 0x00, 0x00],
                vec![0xca, 0xff, 0x80, 0x00, 0x00],
                vec![0xca, 0x7f, 0x80, 0x00, 0x01],
                vec![0xca, 0xff, 0xff, 0xff, 0xff],
                vec![0xcb, 0x7f, 0xf8, 0, 0, 0, 0, 0, 0],
                vec![0xcb, 0x7f, 0xf0, 0, 0, 0, 0, 0, 0],
                vec![0xcb, 0xff, 0xf0, 0, 0, 0, 0, 0, 1],
                vec![0xcb, 0x47, 0xf0, 0, 0, 0, 0, 0, 0],
                vec![0xc0],
                vec![0xc2],
                vec![0xc3],
                vec![0xa0],
                vec![0xa1, 0x61],
                vec![0xa3, 0x20, 0x41, 0x20],
                vec![0xa2, 0xc3, 0x9f],
                vec![0xa2, 0xc3],
                vec![0x90],
                vec![0x91, 0x05],
                vec![0x92, 0x01, 0x02],
                vec![0x80],
                vec![0x82, 0xa1, 0x78, 0x01, 0xa1, 0x79, 0x02],
                vec![0xc4, 0x01, 0x05],
                vec![],
                vec![0xc1],
                vec![0xd4, 0x01, 0x05],
            ];
            // a few more NaN payloads
            for p in [1u32, 0x400001, 0x7fffff, 0x2aaaaa] {
                let b = (0x7f800000u32 | p).to_be_bytes();
                v.push(vec![0xca, b[0], b[1], b[2], b[3]]);
                let b = (0xff800000u32 | p).to_be_bytes();
                v.push(vec![0xca, b[0], b[1], b[2], b[3]]);
            }
            v
        }
    }
}

pub fn c04(cx: &Ctx) -> Report {
    let tier = cx.tier;
    let mut rep = for_subjects(cx, "C04", |d| d.derives(Tr::Deserialize), |i, d, s, r| {
        let dom = domain::domain(d, tier);
        // values: obtainable + rejected + needing sanitisation, capped
        let cap = if tier == Tier::Quick { 60 } else { 400 };
        let mut vals: Vec<Val> = vec![];
        {
            let mut ok = vec![];
            let mut bad = vec![];
            let mut san = vec![];
            for raw in &dom {
                match refsem::construct(d, raw) {
                    Ok(v) if v == *raw => ok.push(raw.clone()),
                    Ok(_) => san.push(raw.clone()),
                    Err(_) => bad.push(raw.clone()),
                }
            }
            for list in [ok, bad, san] {
                let n = list.len();
                let take = cap / 3;
                for k in 0..take.min(n) {
                    vals.push(list[k * (n - 1).max(1) / (take.min(n) - 1).max(1)].clone());
                }
                for k in 0..3.min(n) {
                    vals.push(list[k].clone());
                    vals.push(list[n - 1 - k].clone());
                }
            }
            vals.sort();
            vals.dedup();
        }
        let elems = element_docs(d, s.type_name(), &vals);
        let mut n_plain_err = 0u64;
        let mut n_val_rej = 0u64;
        let mut n_sanitised = 0u64;
        let mut n_ok = 0u64;
        let judge = |fmt: Fmt, pos: Pos, doc: &[u8], desc: &str, r: &mut Report, cnt: &mut (u64, u64, u64, u64)| {
            let plain = s.de_plain(fmt, pos, doc);
            if plain == DeOut::Absent {
                return;
            }
            let obs = s.de(fmt, pos, doc);
            r.evaluations += 1;
            r.transitions += 1;
            let entry = format!("deserialize {fmt:?} {pos:?}");
            let docshow = match std::str::from_utf8(doc) {
                Ok(t) if fmt != Fmt::MsgPack => format!("{t:?}"),
                _ => format!("{doc:02x?}"),
            };
            match (&plain, &obs) {
                (_, DeOut::Panic(p)) => r.violate(mkviol("C04", i, d, &entry, format!("{docshow} [{desc}]"), "no panic".into(), p.clone(), "panic")),
                (DeOut::Err(_), DeOut::Err(_)) | (DeOut::Panic(_), DeOut::Err(_)) => cnt.0 += 1,
                (DeOut::Err(e), DeOut::Ok(vs)) => r.violate(mkviol("C04", i, d, &entry, format!("{docshow} [{desc}]"), format!("error (inner value does not deserialize: {e})"), format!("Ok({:?})", vs.iter().map(|v| v.show()).collect::<Vec<_>>()), "accepted-undecodable")),
                (DeOut::Ok(raws), _) => {
                    let exps: Vec<Result<Val, Viol>> = raws.iter().map(|raw| refsem::construct(d, raw)).collect();
                    if exps.iter().all(|e| e.is_ok()) {
                        let want: Vec<Val> = exps.into_iter().map(|e| e.unwrap()).collect();
                        if want != *raws {
                            cnt.2 += 1;
                        } else {
                            cnt.3 += 1;
                        }
                        match &obs {
                            DeOut::Ok(got) if *got == want => {}
                            other => r.violate(mkviol("C04", i, d, &entry, format!("{docshow} [{desc}]"), format!("Ok({:?})", want.iter().map(|v| v.show()).collect::<Vec<_>>()), format!("{other:?}").chars().take(300).collect(), if matches!(other, DeOut::Ok(_)) { "wrong-value" } else { "rejected-but-valid" })),
                        }
                    } else {
                        cnt.1 += 1;
                        if let DeOut::Ok(got) = &obs {
                            r.violate(mkviol("C04", i, d, &entry, format!("{docshow} [{desc}]"), "error (constructor rejects the carried value)".into(), format!("Ok({:?})", got.iter().map(|v| v.show()).collect::<Vec<_>>()), "accepted-but-invalid"));
                        }
                    }
                }
                _ => {}
            }
        };
        let mut cnt = (0u64, 0u64, 0u64, 0u64);
        for fmt in ALL_FMT {
            for pos in ALL_POS {
                if s.de_plain(fmt, pos, b"") == DeOut::Absent {
                    continue;
                }
                r.hist(&format!("{fmt:?}/{pos:?}"), 1);
                match pos {
                    Pos::Top | Pos::Opt | Pos::Field => {
                        for (desc, e) in &elems {
                            if let Ok(doc) = encode(fmt, &at_pos(pos, &[e.clone()])) {
                                judge(fmt, pos, &doc, desc, r, &mut cnt);
                            }
                        }
                    }
                    _ => {
                        // containers: singletons, and every element paired with a valid and an invalid one
                        let anchors: Vec<&(String, DocVal)> = elems.iter().step_by((elems.len() / 5).max(1)).collect();
                        for (desc, e) in &elems {
                            if let Ok(doc) = encode(fmt, &at_pos(pos, &[e.clone()])) {
                                judge(fmt, pos, &doc, desc, r, &mut cnt);
                            }
                            for (d2, a) in &anchors {
                                for pair in [[e.clone(), (*a).clone()], [(*a).clone(), e.clone()]] {
                                    if let Ok(doc) = encode(fmt, &at_pos(pos, &pair)) {
                                        judge(fmt, pos, &doc, &format!("{desc} + {d2}"), r, &mut cnt);
                                    }
                                }
                            }
                        }
                        if pos != Pos::Tuple {
                            if let Ok(doc) = encode(fmt, &at_pos(pos, &[])) {
                                judge(fmt, pos, &doc, "empty container", r, &mut cnt);
                            }
                        }
                    }
                }
                if pos == Pos::Top {
                    for doc in raw_docs(fmt) {
                        judge(fmt, pos, &doc, "raw", r, &mut cnt);
                    }
                }
            }
        }
        // adversarial deserializer: every visitor method is called with every payload; whatever the
        // newtype's visitor accepts must be exactly what the constructor makes of that payload
        {
            use crate::serde_h::{probe_payload, ProbeCall};
            let int_ty = d.inner.int_ty();
            let mut n_probe = 0u64;
            let mut n_probe_ok = 0u64;
            crate::serde_h::PROBE_EXPECT_NAME.with(|c| c.set(Some(s.type_name())));
            for raw in &vals {
                let base = probe_payload(raw, int_ty);
                let mut calls: Vec<(String, ProbeCall, bool)> = vec![
                    ("visit_newtype_struct".into(), ProbeCall::Newtype(Box::new(base.clone())), true),
                    ("direct visitor method for the payload type".into(), base.clone(), false),
                    ("visit_seq[1]".into(), ProbeCall::Seq1(Box::new(base.clone())), false),
                    ("visit_seq[2]".into(), ProbeCall::Seq2(Box::new(base.clone())), false),
                    ("visit_map{0:..}".into(), ProbeCall::Map1(Box::new(base.clone())), false),
                    ("visit_some".into(), ProbeCall::Some_(Box::new(base.clone())), false),
                    ("visit_newtype_struct(visit_newtype_struct)".into(), ProbeCall::Newtype(Box::new(ProbeCall::Newtype(Box::new(base.clone())))), false),
                ];
                if let Val::S(sv) = raw {
                    calls.push(("visit_string".into(), ProbeCall::StringOwned(sv.clone()), false));
                    calls.push(("visit_bytes".into(), ProbeCall::Bytes(sv.as_bytes().to_vec()), false));
                }
                // widened / narrowed numeric visitor methods carrying the same number
                match raw {
                    Val::U(x) => {
                        if let Ok(y) = u64::try_from(*x) {
                            calls.push(("visit_u64".into(), ProbeCall::U64(y), false));
                        }
                        if let Ok(y) = i64::try_from(*x) {
                            calls.push(("visit_i64".into(), ProbeCall::I64(y), false));
                        }
                        calls.push(("visit_u128".into(), ProbeCall::U128(*x), false));
                        calls.push(("visit_f64".into(), ProbeCall::F64(*x as f64), false));
                    }
                    Val::I(x) => {
                        if let Ok(y) = i64::try_from(*x) {
                            calls.push(("visit_i64".into(), ProbeCall::I64(y), false));
                        }
                        if let Ok(y) = u64::try_from(*x) {
                            calls.push(("visit_u64".into(), ProbeCall::U64(y), false));
                        }
                        calls.push(("visit_i128".into(), ProbeCall::I128(*x), false));
                        calls.push(("visit_f64".into(), ProbeCall::F64(*x as f64), false));
                    }
                    Val::F32(b) => calls.push(("visit_f64".into(), ProbeCall::F64(f32::from_bits(*b) as f64), false)),
                    Val::F64(b) => calls.push(("visit_f32".into(), ProbeCall::F32(f64::from_bits(*b) as f32), false)),
                    _ => {}
                }
                for (name, call, legit) in calls {
                    let obs = s.de_probe(&call);
                    if obs == DeOut::Absent {
                        break;
                    }
                    n_probe += 1;
                    r.evaluations += 1;
                    r.transitions += 1;
                    let exp = refsem::construct(d, raw);
                    match (&obs, &exp) {
                        (DeOut::Panic(p), _) => r.violate(mkviol("C04", i, d, &format!("deserialize via {name}"), raw.show(), "no panic".into(), p.clone(), "panic")),
                        (DeOut::Ok(got), Ok(want)) if got.len() == 1 && got[0] == *want => n_probe_ok += 1,
                        (DeOut::Ok(got), _) => r.violate(mkviol("C04", i, d, &format!("deserialize via {name}"), raw.show(), format!("{} or an error", expected_show(&exp)), format!("Ok({:?})", got.iter().map(|v| v.show()).collect::<Vec<_>>()), if exp.is_err() { "accepted-but-invalid" } else { "wrong-value" })),
                        (DeOut::Err(e), Ok(_)) if legit => r.violate(mkviol("C04", i, d, &format!("deserialize via {name}"), raw.show(), expected_show(&exp), format!("Err({e})"), "rejected-but-valid")),
                        _ => {}
                    }
                }
            }
            crate::serde_h::PROBE_EXPECT_NAME.with(|c| c.set(None));
            r.hist("adversarial-visitor-calls", n_probe);
            r.hist("adversarial-visitor-calls-accepted", n_probe_ok);
        }
        n_plain_err += cnt.0;
        n_val_rej += cnt.1;
        n_sanitised += cnt.2;
        n_ok += cnt.3;
        r.hist("docs-rejected-by-inner-type", n_plain_err);
        r.hist("docs-rejected-by-validator", n_val_rej);
        r.hist("docs-accepted-and-sanitised", n_sanitised);
        r.hist("docs-accepted-unchanged", n_ok);
        r.distinct_nontrivial += n_plain_err + n_val_rej + n_sanitised;
        r.states += elems.len() as u64;
        r.traces_validated_against_impl += r.evaluations;
        if d.has_validation() && n_val_rej == 0 {
            r.hist("subjects-where-validator-never-rejected-a-doc", 1);
        }
        if r.samples.is_empty() && i % 9 == 0 {
            if let Some((desc, e)) = elems.get(elems.len() / 4) {
                if let Ok(doc) = encode(Fmt::Ron, &at_pos(Pos::VecElem, &[e.clone(), e.clone()])) {
                    r.samples.push(json!({"decl": decl_text(d), "format": "Ron", "position": "VecElem", "doc": String::from_utf8_lossy(&doc), "desc": desc, "plain": format!("{:?}", s.de_plain(Fmt::Ron, Pos::VecElem, &doc)), "observed": format!("{:?}", s.de(Fmt::Ron, Pos::VecElem, &doc))}));
                }
            }
        }
    });
    rep.rule = "documents are produced by serialising domain values, wrongly typed values and raw texts/bytes in JSON/RON/MessagePack at 7 container positions; each is decoded as the newtype and as a plain serde newtype of the same name; plain fails => newtype fails; plain yields raw values => newtype result == REF.construct on each (sanitised) or an error if any is rejected; non-trivial = documents rejected by the inner type, rejected by a validator, or changed by sanitisation".into();
    rep
}

// ------------------------------------------------------------------------------------------------
// C09 / C14 / C12 live in explore2.rs

#[cfg(test)]
mod tests {
    use super::*;
    #[test]
    fn lexicon() {
        let cases = [
            ("Nt5 is too big. The value must be less than 100.", Rel::Lt, "100", false),
            ("X is too small. The value must be greater or equal to -12.5.", Rel::Ge, "-12.5", false),
            ("X is too big. The value must be less or equal to 1e-300.", Rel::Le, "1e-300", false),
            ("X is too long. The value length must be at most 3 character(s).", Rel::Le, "3", true),
            ("X is too short. The value length must be at least 2 character(s).", Rel::Ge, "2", true),
            ("X is too small. The value must be greater than 0. Valid range: 0..100.", Rel::Gt, "0", false),
            ("X is too big. The value must be less than inf.", Rel::Lt, "inf", false),
            ("X is too big. The value must be less or equal to 340282366920938463463374607431768211454.", Rel::Le, "340282366920938463463374607431768211454", false),
        ];
        for (t, r, b, l) in cases {
            assert_eq!(message_relation(t), Some((r, b.to_string(), l)), "{t}");
        }
        assert_eq!(message_range("Valid range: 0..100."), Some((0, 100, false)));
        assert_eq!(message_range("Valid range: -5..=5"), Some((-5, 5, true)));
        assert_eq!(message_range("must be less than 12.5."), None);
    }
}
