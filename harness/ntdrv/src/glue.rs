//! Generic helpers monomorphised inside the generated subject crates.

use crate::serde_h::{decode, encode};
use crate::subject::*;
use ntcore::model::Val;
use serde::de::DeserializeOwned;
use serde::Serialize;

pub use crate::serde_h::record_events;

pub fn h_ser<T: Serialize, P: Serialize, I: InnerTy + Serialize + DeserializeOwned>(fmt: Fmt, v: &Val, mk: impl Fn(&Val) -> Option<T>, mkp: impl Fn(I) -> P, rt: Option<&dyn Fn(&[u8]) -> Outcome>) -> SerOut {
    let mut o = SerOut::default();
    let Some(t) = mk(v) else { return o };
    let r = guard_any(|| {
        let tb = encode(fmt, &t);
        // the stored (sanitized) inner value is what must be compared
        tb
    });
    let tb = match r {
        Ok(x) => x,
        Err(p) => Err(format!("PANIC {p}")),
    };
    o.t_bytes = Some(tb.clone());
    // the stored inner value: decode our own plain encoding is not possible generically, so the
    // caller passes the *stored* value as `v` (valid + canonical), which makes raw == stored.
    let inner: I = I::from_val(v);
    o.inner_bytes = Some(encode(fmt, &inner));
    o.plain_bytes = Some(encode(fmt, &mkp(inner.clone())));
    if let Some(Ok(ib)) = &o.inner_bytes {
        o.inner_roundtrips = Some(match decode::<I>(fmt, ib) {
            Ok(back) => back.to_val() == *v,
            Err(_) => false,
        });
    }
    if let (Some(rt), Ok(bytes)) = (rt, &tb) {
        o.roundtrip = Some(guard(|| rt(bytes)));
    }
    o
}

pub fn h_sort<T: Ord>(xs: &[Val], unstable: bool, mk: impl Fn(&Val) -> Option<T>, inn: impl Fn(T) -> Val) -> Result<Vec<Val>, String> {
    let mut ts: Vec<T> = xs.iter().filter_map(|v| mk(v)).collect();
    guard_any(|| {
        if unstable {
            ts.sort_unstable();
        } else {
            ts.sort();
        }
    })?;
    // binary search for each element must find an equal one
    guard_any(|| {
        for i in 0..ts.len() {
            if ts.binary_search(&ts[i]).is_err() {
                panic!("binary_search failed to find element {i}");
            }
        }
    })?;
    Ok(ts.into_iter().map(inn).collect())
}

pub fn h_btree<T: Ord>(xs: &[Val], mk: impl Fn(&Val) -> Option<T>, inn: impl Fn(T) -> Val) -> Result<Vec<Val>, String> {
    let r = guard_any(|| {
        let mut m = std::collections::BTreeMap::new();
        for (i, v) in xs.iter().enumerate() {
            if let Some(t) = mk(v) {
                m.insert(t, i);
            }
        }
        // lookups by a freshly built key
        for v in xs {
            if let Some(t) = mk(v) {
                if !m.contains_key(&t) {
                    panic!("BTreeMap lost key {}", v.show());
                }
            }
        }
        m.into_keys().collect::<Vec<T>>()
    })?;
    Ok(r.into_iter().map(inn).collect())
}

pub fn h_hashmap<T: std::hash::Hash + Eq + std::borrow::Borrow<I>, I: InnerTy + std::hash::Hash + Eq>(xs: &[Val], mk: impl Fn(&Val) -> Option<T>) -> Result<bool, String> {
    guard_any(|| {
        let mut m = std::collections::HashMap::new();
        for (i, v) in xs.iter().enumerate() {
            if let Some(t) = mk(v) {
                m.insert(t, i);
            }
        }
        xs.iter().all(|v| {
            let i = I::from_val(v);
            m.get::<I>(&i).is_some()
        })
    })
}

pub fn h_hashmap_str<T: std::hash::Hash + Eq + std::borrow::Borrow<str>>(xs: &[Val], mk: impl Fn(&Val) -> Option<T>) -> Result<bool, String> {
    guard_any(|| {
        let mut m = std::collections::HashMap::new();
        for (i, v) in xs.iter().enumerate() {
            if let Some(t) = mk(v) {
                m.insert(t, i);
            }
        }
        xs.iter().all(|v| m.get::<str>(v.as_str()).is_some())
    })
}
