mod rt;
use ntcore::domain::Tier;
use std::path::PathBuf;

fn main() {
    let args: Vec<String> = std::env::args().collect();
    let cmd = args.get(1).map(|s| s.as_str()).unwrap_or("");
    let get = |k: &str, d: &str| -> String { args.iter().position(|a| a == k).and_then(|i| args.get(i + 1)).cloned().unwrap_or_else(|| d.to_string()) };
    match cmd {
        "rt" => {
            let tier = Tier::parse(&get("--tier", "quick"));
            let out = PathBuf::from(get("--out", &format!("/verif/generated/{}/rt", tier.name())));
            let n: usize = get("--crates", if tier == Tier::Quick { "16" } else { "48" }).parse().unwrap();
            rt::generate(tier, &out, n);
        }
        _ => {
            eprintln!("usage: ntgen rt --tier quick|thorough [--out dir] [--crates n]");
            std::process::exit(2);
        }
    }
}
