mod cc;
mod rt;
use ntcore::domain::Tier;
use std::path::PathBuf;

fn main() {
    let args: Vec<String> = std::env::args().collect();
    let cmd = args.get(1).map(|s| s.as_str()).unwrap_or("");
    let get = |k: &str, d: &str| -> String { args.iter().position(|a| a == k).and_then(|i| args.get(i + 1)).cloned().unwrap_or_else(|| d.to_string()) };
    match cmd {
        "rt" => {
            let tier = Tier::parse(&get("--tier", "quick"));
            let out = PathBuf::from(get("--out", &format!("/verif/generated/{}/rt", tier.name())));
            let n: usize = get("--crates", if tier == Tier::Quick { "16" } else { "48" }).parse().unwrap();
            let skip: Vec<usize> = get("--skip", "").split(',').filter_map(|x| x.trim().parse().ok()).collect();
            rt::generate(tier, &out, n, &skip);
        }
        "cc" => {
            let tier = Tier::parse(&get("--tier", "quick"));
            let prop = get("--prop", "C08");
            let out = PathBuf::from(get("--out", &format!("/verif/generated/{}/cc_{}", tier.name(), prop)));
            let n: usize = get("--crates", "16").parse().unwrap();
            let feat_all = rt::NUTYPE_DEP.to_string();
            let pfx = format!("{}{}", prop.to_lowercase(), &tier.name()[..1]);
            match prop.as_str() {
                "C02" => cc::emit(&cc::Emit { out: &out, prefix: pfx, ncrates: n, nutype_dep: feat_all, nostd: false, extra_deps: cc::STD_EXTRA_DEPS.into(), minimal_prelude: false, crate_header: String::new() }, &cc::c02_cases(tier), serde_json::json!({"prop": "C02"})),
                "C08" => cc::emit(&cc::Emit { out: &out, prefix: pfx, ncrates: n, nutype_dep: feat_all, nostd: false, extra_deps: cc::STD_EXTRA_DEPS.into(), minimal_prelude: false, crate_header: String::new() }, &cc::c08_cases(tier), serde_json::json!({"prop": "C08"})),
                "C08T" => cc::emit(&cc::Emit { out: &out, prefix: pfx, ncrates: 1, nutype_dep: feat_all, nostd: false, extra_deps: cc::STD_EXTRA_DEPS.into(), minimal_prelude: false, crate_header: String::new() }, &cc::c08_test_cases(tier), serde_json::json!({"prop": "C08T"})),
                "C09X" => cc::emit(&cc::Emit { out: &out, prefix: pfx, ncrates: 4, nutype_dep: feat_all, nostd: false, extra_deps: cc::STD_EXTRA_DEPS.into(), minimal_prelude: false, crate_header: String::new() }, &cc::c09x_cases(tier), serde_json::json!({"prop": "C09X"})),
                "C14X" => cc::emit(&cc::Emit { out: &out, prefix: pfx, ncrates: 4, nutype_dep: feat_all, nostd: false, extra_deps: cc::STD_EXTRA_DEPS.into(), minimal_prelude: false, crate_header: String::new() }, &cc::c14x_cases(tier), serde_json::json!({"prop": "C14X"})),
                "C03X" => cc::emit(&cc::Emit { out: &out, prefix: pfx, ncrates: 4, nutype_dep: feat_all, nostd: false, extra_deps: cc::STD_EXTRA_DEPS.into(), minimal_prelude: false, crate_header: String::new() }, &cc::c03x_cases(tier), serde_json::json!({"prop": "C03X"})),
                "C05" => cc::emit(&cc::Emit { out: &out, prefix: pfx, ncrates: n, nutype_dep: feat_all, nostd: false, extra_deps: cc::STD_EXTRA_DEPS.into(), minimal_prelude: false, crate_header: String::new() }, &cc::c05_cases(tier), serde_json::json!({"prop": "C05"})),
                "C05N" => cc::emit(&cc::Emit { out: &out, prefix: pfx, ncrates: 1, nutype_dep: "nutype = { path = \"/repo/nutype\" }".into(), nostd: false, extra_deps: cc::STD_EXTRA_DEPS.into(), minimal_prelude: false, crate_header: String::new() }, &cc::c05_nofeature_cases(), serde_json::json!({"prop": "C05N"})),
                "C15" => cc::emit(&cc::Emit { out: &out, prefix: pfx, ncrates: n, nutype_dep: "nutype = { path = \"/repo/nutype\", default-features = false, features = [\"serde\", \"arbitrary\", \"new_unchecked\"] }".into(), nostd: true, extra_deps: "serde = { version = \"1\", default-features = false, features = [\"derive\"] }\narbitrary = \"1.3\"\n".into(), minimal_prelude: true, crate_header: cc::c15_header() }, &cc::c15_cases(tier), serde_json::json!({"prop": "C15"})),
                "C15S" => cc::emit(&cc::Emit { out: &out, prefix: pfx, ncrates: n, nutype_dep: "nutype = { path = \"/repo/nutype\", features = [\"serde\", \"arbitrary\", \"new_unchecked\"] }".into(), nostd: false, extra_deps: "serde = { version = \"1\", features = [\"derive\"] }\narbitrary = \"1.3\"\n".into(), minimal_prelude: true, crate_header: cc::c15_header() }, &cc::c15_cases(tier), serde_json::json!({"prop": "C15S"})),
                "C15P" => cc::emit(&cc::Emit { out: &out, prefix: pfx, ncrates: n, nutype_dep: "nutype = { path = \"/repo/nutype\", default-features = false, features = [\"serde\", \"arbitrary\", \"new_unchecked\"] }".into(), nostd: true, extra_deps: "serde = { version = \"1\", default-features = false, features = [\"derive\"] }\narbitrary = { path = \"/verif/harness/shims/arbitrary_nostd\" }\n".into(), minimal_prelude: true, crate_header: cc::c15_header() }, &cc::c15_cases(tier), serde_json::json!({"prop": "C15P"})),
                _ => { eprintln!("unknown cc prop"); std::process::exit(2); }
            }
        }
        _ => {
            eprintln!("usage: ntgen rt --tier quick|thorough [--out dir] [--crates n]");
            std::process::exit(2);
        }
    }
}
