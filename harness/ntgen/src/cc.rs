//! Generator for the compile-verdict explorer: tiny modules (one per case) whose accept/reject
//! verdict rustc decides, plus probes that are executed for the survivors.

use ntcore::admit::{self, Features, Verdict};
use ntcore::domain::Tier;
use ntcore::model::*;
use ntcore::refsem;
use ntcore::render::{self, value_expr, DECL_PRELUDE};
use serde_json::json;
use std::fmt::Write as _;
use std::path::Path;

#[derive(Clone, Debug)]
pub struct Case {
    pub kind: &'static str,   // decl | attack | control | use
    pub expect: &'static str, // accept | reject | either
    pub class: String,
    /// module body (after the prelude)
    pub body: String,
    /// probe statements: (rust expression producing String, expected text)
    pub probes: Vec<(String, String)>,
    /// for `use` modules: index (within the list) of the declaration module they belong to
    pub belongs_to: Option<usize>,
    /// human readable declaration / program text for reports
    pub text: String,
    /// MX binding: (attrs, item) to be expanded in-process
    pub mx: Option<(String, String)>,
    /// generated #[test]s expected to fail (C08 expression bounds / defaults): test name suffix -> must_fail
    pub tests: Vec<(String, bool)>,
    pub nostd: bool,
}

impl Case {
    pub fn new(kind: &'static str, expect: &'static str, class: &str, body: String) -> Case {
        Case { kind, expect, class: class.to_string(), text: body.clone(), body, probes: vec![], belongs_to: None, mx: None, tests: vec![], nostd: false }
    }
}

pub fn val_dbg(v: &Val) -> String {
    match v {
        Val::I(x) => format!("{x}"),
        Val::U(x) => format!("{x}"),
        Val::F32(b) => format!("{:?}", f32::from_bits(*b)),
        Val::F64(b) => format!("{:?}", f64::from_bits(*b)),
        Val::S(s) => format!("{s:?}"),
        Val::V(x) => format!("{x:?}"),
        Val::P(x, y) => format!("Point {{ x: {x}, y: {y} }}"),
    }
}

/// probe statements for a declaration: try_new/new on each input, expectation from REF
pub fn probes_for(sem: &Decl, type_name: &str, inputs: &[Val]) -> Vec<(String, String)> {
    let mut out = vec![];
    for raw in inputs {
        let e = value_expr(raw, sem.inner.ty_src());
        let e = if matches!(raw, Val::I(x) if *x < 0) || matches!(raw, Val::F32(_) | Val::F64(_)) { format!("({e})") } else { e };
        let (code, exp) = if sem.has_validation() {
            (
                format!("match {type_name}::try_new({e}) {{ Ok(v) => format!(\"Ok({{:?}})\", v.into_inner()), Err(e) => format!(\"Err({{:?}})\", e) }}"),
                match refsem::construct(sem, raw) {
                    Ok(v) => format!("Ok({})", val_dbg(&v)),
                    Err(refsem::Viol::Std(_, name)) => format!("Err({name})"),
                    Err(refsem::Viol::Custom(_)) => "Err(custom)".to_string(),
                },
            )
        } else {
            (format!("format!(\"Ok({{:?}})\", {type_name}::new({e}).into_inner())"), format!("Ok({})", val_dbg(&refsem::construct(sem, raw).unwrap())))
        };
        // a panic inside the constructor (e.g. a partial user predicate reached out of order) is an observation,
        // not a crash of the probe binary
        let code = format!("match ::std::panic::catch_unwind(|| {code}) {{ Ok(s) => s, Err(_) => \"PANIC\".to_string() }}");
        out.push((code, format!("{} => {}", val_dbg(raw), exp)));
    }
    out
}

pub fn decl_body(d: &Decl) -> Option<(String, String, String)> {
    let src = render::render(d)?;
    let mut b = String::new();
    for it in &src.items {
        let _ = writeln!(b, "{it}");
    }
    let _ = writeln!(b, "#[nutype({})]\n{}", src.attr, src.item);
    Some((b, src.attr.clone(), src.item.clone()))
}

pub fn decl_case(d: &Decl, expect: &'static str, class: &str) -> Option<Case> {
    let (body, attr, item) = decl_body(d)?;
    let mut c = Case::new("decl", expect, class, body);
    c.mx = Some((attr, item));
    Some(c)
}

pub fn raw_case(kind: &'static str, expect: &'static str, class: &str, attr: &str, item: &str, extra: &str) -> Case {
    let body = format!("{extra}\n#[nutype({attr})]\n{item}\n");
    let mut c = Case::new(kind, expect, class, body);
    c.mx = Some((attr.to_string(), item.to_string()));
    c
}

// ------------------------------------------------------------------------------------------------
// emit a workspace

pub struct Emit<'a> {
    pub out: &'a Path,
    pub prefix: String,
    pub ncrates: usize,
    pub nutype_dep: String,
    pub nostd: bool,
    pub extra_deps: String,
    /// only `use nutype::nutype;` in every module (no ulib / std imports)
    pub minimal_prelude: bool,
    /// items placed at the top of every crate (helper module)
    pub crate_header: String,
}

pub fn emit(e: &Emit, cases: &[Case], meta: serde_json::Value) {
    let n = e.ncrates.max(1);
    let mut files: Vec<String> = vec![String::new(); n];
    let mut mains: Vec<String> = vec![String::new(); n];
    let mut lines: Vec<usize> = vec![0; n];
    let mut jcases = vec![];
    // `use` modules must live in the crate of the declaration they belong to
    let crate_of = |i: usize, cases: &[Case]| -> usize {
        match cases[i].belongs_to {
            Some(j) => j % n,
            None => i % n,
        }
    };
    for c in 0..n {
        let head = if e.nostd { "// generated by ntgen – do not edit\n#![no_std]\n#![allow(unused, non_snake_case, non_camel_case_types, clippy::all)]\nextern crate alloc;\n" } else { "// generated by ntgen – do not edit\n#![allow(unused, non_snake_case, non_camel_case_types, clippy::all)]\n" };
        files[c].push_str(head);
        files[c].push_str(&e.crate_header);
        lines[c] = head.matches('\n').count() + e.crate_header.matches('\n').count();
    }
    for (i, case) in cases.iter().enumerate() {
        let c = crate_of(i, cases);
        let mut m = String::new();
        let _ = writeln!(m, "pub mod m{i} {{ // @case {i}");
        if e.nostd || e.minimal_prelude {
            let _ = writeln!(m, "    #[allow(unused_imports)] use nutype::nutype;");
        } else {
            let _ = writeln!(m, "    {}", DECL_PRELUDE.replace('\n', "\n    "));
        }
        if let Some(j) = case.belongs_to {
            let _ = writeln!(m, "    #[allow(unused_imports)] use super::m{j}::*;");
        }
        for l in case.body.lines() {
            let _ = writeln!(m, "    {l}");
        }
        if !case.probes.is_empty() {
            let _ = writeln!(m, "    pub fn probe(out: &mut Vec<String>) {{");
            for (k, (code, _)) in case.probes.iter().enumerate() {
                let _ = writeln!(m, "        out.push(format!(\"PROBE\\t{i}\\t{k}\\t{{}}\", {code}));");
            }
            let _ = writeln!(m, "    }}");
            let _ = writeln!(mains[c], "    m{i}::probe(&mut out); // @call {i}");
        }
        let _ = writeln!(m, "}} // @end {i}");
        let start = lines[c] + 1;
        let cnt = m.matches('\n').count();
        lines[c] += cnt;
        files[c].push_str(&m);
        jcases.push(json!({
            "id": i, "crate": format!("{}_{c:02}", e.prefix), "kind": case.kind, "expect": case.expect, "class": case.class,
            "text": case.text, "line_start": start, "line_end": start + cnt - 1,
            "probes": case.probes.iter().map(|(_, x)| x.clone()).collect::<Vec<_>>(),
            "belongs_to": case.belongs_to, "mx": case.mx.as_ref().map(|(a, b)| json!({"attrs": a, "item": b})),
            "tests": case.tests.iter().map(|(n, f)| json!({"name": n, "must_fail": f})).collect::<Vec<_>>(),
        }));
    }
    let mut members = vec![];
    for c in 0..n {
        let cname = format!("{}_{c:02}", e.prefix);
        members.push(format!("\"{cname}\""));
        let (fname, body) = if e.nostd {
            ("src/lib.rs".to_string(), files[c].clone())
        } else {
            let main = format!("fn main() {{\n    let mut out: Vec<String> = vec![];\n{}    for l in out {{ println!(\"{{l}}\"); }}\n}}\n", mains[c]);
            ("src/main.rs".to_string(), format!("{}{}", files[c], main))
        };
        let cargo = format!("[package]\nname = \"{cname}\"\nversion = \"0.1.0\"\nedition = \"2021\"\n\n[dependencies]\n{}\n{}", e.nutype_dep, e.extra_deps);
        crate::rt::write_if_changed(&e.out.join(&cname).join("Cargo.toml"), &cargo);
        // always rewrite sources: the engine blanks rejected modules in place
        std::fs::create_dir_all(e.out.join(&cname).join("src")).unwrap();
        std::fs::write(e.out.join(&cname).join(&fname), body).unwrap();
    }
    let ws = format!("[workspace]\nresolver = \"2\"\nmembers = [{}]\n\n[profile.dev]\nopt-level = 0\ndebug = 0\nincremental = false\n", members.join(", "));
    crate::rt::write_if_changed(&e.out.join("Cargo.toml"), &ws);
    crate::rt::write_if_changed(&e.out.join(".cargo/config.toml"), "[net]\noffline = true\n[build]\ntarget-dir = \"/verif/.target\"\n");
    if !e.out.join("Cargo.lock").exists() {
        let _ = std::fs::copy("/verif/harness/Cargo.lock", e.out.join("Cargo.lock"));
    }
    let doc = json!({"meta": meta, "nostd": e.nostd, "cases": jcases});
    std::fs::write(e.out.join("cases.json"), serde_json::to_string(&doc).unwrap()).unwrap();
    eprintln!("ntgen cc: {} cases in {} crates under {}", cases.len(), n, e.out.display());
}

pub const STD_EXTRA_DEPS: &str = "ulib = { path = \"/verif/harness/ulib\" }\nserde = { version = \"1\", features = [\"derive\"] }\narbitrary = \"1.3\"\nregex = \"1\"\n";

// ------------------------------------------------------------------------------------------------
// C02: spellings and layouts

fn neighbourhood(inner: Inner, centers: &[Val]) -> Vec<Val> {
    let mut out = vec![];
    match inner {
        Inner::Int(t) => {
            let mut cs: Vec<i128> = vec![0];
            for c in centers {
                match c {
                    Val::I(x) => cs.push(*x),
                    Val::U(x) => {
                        if let Ok(y) = i128::try_from(*x) {
                            cs.push(y)
                        }
                    }
                    _ => {}
                }
            }
            for c in cs {
                for k in -3i128..=3 {
                    if let Some(x) = c.checked_add(k) {
                        if let Some(v) = t.val(x) {
                            out.push(v);
                        }
                    }
                }
                if let Some(v) = c.checked_neg().and_then(|x| t.val(x)) {
                    out.push(v);
                }
            }
            out.push(t.min());
            out.push(t.max());
        }
        Inner::F32 => {
            for c in centers {
                if let Val::F32(b) = c {
                    for k in 0..=2u32 {
                        out.push(Val::F32(b.wrapping_add(k)));
                        out.push(Val::F32(b.wrapping_sub(k)));
                    }
                    out.push(Val::f32(-f32::from_bits(*b)));
                }
            }
            for x in [0.0f32, -0.0, 1.0, -1.0, f32::MAX, f32::MIN, f32::INFINITY, f32::NEG_INFINITY, f32::NAN] {
                out.push(Val::f32(x));
            }
        }
        Inner::F64 => {
            for c in centers {
                if let Val::F64(b) = c {
                    for k in 0..=2u64 {
                        out.push(Val::F64(b.wrapping_add(k)));
                        out.push(Val::F64(b.wrapping_sub(k)));
                    }
                    out.push(Val::f64(-f64::from_bits(*b)));
                }
            }
            for x in [0.0f64, -0.0, 1.0, -1.0, f64::MAX, f64::MIN, f64::INFINITY, f64::NEG_INFINITY, f64::NAN] {
                out.push(Val::f64(x));
            }
        }
        Inner::Str => {
            // lengths 0..=4 and the neighbourhood of every length bound (bounds above 300 are left to the runtime pool:
            // literals of that size do not belong into generated source)
            let mut lens: Vec<usize> = (0..=4).collect();
            for c in centers {
                if let Val::U(n) = c {
                    let n = *n as usize;
                    if n <= 300 {
                        lens.extend([n.saturating_sub(1), n, n + 1, n + 2]);
                    }
                }
            }
            lens.sort();
            lens.dedup();
            for n in lens {
                out.push(Val::S("a".repeat(n)));
                out.push(Val::S("ß".repeat(n)));
            }
            out.push(Val::s("  Ab "));
            out.push(Val::s(" "));
            out.push(Val::s("x"));
        }
        _ => {}
    }
    out.sort();
    out.dedup();
    out
}

pub const ALL_FORMS: [Form; 29] = [
    Form::Lit, Form::Under, Form::IntForFloat, Form::Exp, Form::Suffix, Form::Const, Form::NegConst, Form::NegSpConst, Form::NegParen, Form::Paren, Form::Plus1, Form::OnePlus, Form::Minus1, Form::Shl, Form::AsCast, Form::TyExtreme, Form::FnCall, Form::Block, Form::NegPlus, Form::ModPath, Form::Mul2,
    Form::IfExpr, Form::NotLit, Form::NotConst, Form::NegLitParen, Form::DoubleNeg, Form::ShadowMax, Form::ShadowMin, Form::Shr,
];

pub fn c02_cases(tier: Tier) -> Vec<Case> {
    let mut cases = vec![];
    // (a) bound spellings
    let int_types: Vec<IntTy> = match tier {
        Tier::Quick => vec![IntTy::I8, IntTy::U16, IntTy::I64],
        Tier::Thorough => vec![IntTy::I8, IntTy::U8, IntTy::I16, IntTy::U16, IntTy::I32, IntTy::U32, IntTy::I64, IntTy::U64, IntTy::I128, IntTy::U128, IntTy::Isize, IntTy::Usize],
    };
    let mk = |k: usize, b: Bound| -> Vd {
        match k {
            0 => Vd::Greater(b),
            1 => Vd::GreaterOrEqual(b),
            2 => Vd::Less(b),
            _ => Vd::LessOrEqual(b),
        }
    };
    let mut n = 0usize;
    for t in &int_types {
        let mut vals: Vec<Val> = vec![t.val(0).unwrap(), t.val(1).unwrap(), t.val(6).unwrap(), t.val(100).unwrap(), (*t).max(), (*t).min()];
        if t.signed() {
            vals.extend([t.val(-1).unwrap(), t.val(-6).unwrap(), t.val(-100).unwrap()]);
        }
        if t.bits() >= 16 {
            vals.push(t.val(1000).unwrap());
        }
        for (vi, v) in vals.iter().enumerate() {
            for (fi, form) in ALL_FORMS.iter().enumerate() {
                for k in 0..4 {
                    if tier == Tier::Quick && (vi + fi + k) % 2 != 0 {
                        continue;
                    }
                    // rules that leave nothing: skip (greater = MAX, less = MIN)
                    if (k == 0 && *v == (*t).max()) || (k == 2 && *v == (*t).min()) {
                        continue;
                    }
                    let mut d = Decl::new(&format!("Sp{n}"), Inner::Int(*t));
                    d.validation = Validation::Std(vec![mk(k, Bound { v: v.clone(), form: *form })]);
                    d.derives = vec![Tr::Debug];
                    if let Some(mut c) = decl_case(&d, "either", &format!("spelling:{form:?}")) {
                        c.probes = probes_for(&d, &d.name, &neighbourhood(d.inner, &[v.clone()]));
                        cases.push(c);
                        n += 1;
                    }
                }
            }
        }
    }
    for is32 in [true, false] {
        let vals: Vec<f64> = vec![0.0, -0.0, 1.0, -1.0, 12.5, -12.5, 0.1, -100.0, 1000.5, 1e10, -1e-7, 16777216.0, 6.0];
        for (vi, x) in vals.iter().enumerate() {
            let v = if is32 { Val::f32(*x as f32) } else { Val::f64(*x) };
            for (fi, form) in ALL_FORMS.iter().enumerate() {
                for k in 0..4 {
                    if tier == Tier::Quick && (vi + fi + k) % 3 != 0 {
                        continue;
                    }
                    let mut d = Decl::new(&format!("Sp{n}"), if is32 { Inner::F32 } else { Inner::F64 });
                    d.validation = Validation::Std(vec![mk(k, Bound { v: v.clone(), form: *form })]);
                    d.derives = vec![Tr::Debug];
                    if let Some(mut c) = decl_case(&d, "either", &format!("spelling:{form:?}")) {
                        c.probes = probes_for(&d, &d.name, &neighbourhood(d.inner, &[v.clone()]));
                        cases.push(c);
                        n += 1;
                    }
                }
            }
        }
        // extremes through TyExtreme / Const
        for x in [f64::INFINITY, f64::NEG_INFINITY, f32::MAX as f64, f32::MIN as f64] {
            let v = if is32 { Val::f32(x as f32) } else { Val::f64(if x.is_finite() { if x > 0.0 { f64::MAX } else { f64::MIN } } else { x }) };
            for form in [Form::Const, Form::TyExtreme, Form::NegConst, Form::Paren] {
                for k in [1usize, 3] {
                    let mut d = Decl::new(&format!("Sp{n}"), if is32 { Inner::F32 } else { Inner::F64 });
                    d.validation = Validation::Std(vec![mk(k, Bound { v: v.clone(), form })]);
                    d.derives = vec![Tr::Debug];
                    if let Some(mut c) = decl_case(&d, "either", &format!("spelling:{form:?}")) {
                        c.probes = probes_for(&d, &d.name, &neighbourhood(d.inner, &[v.clone()]));
                        cases.push(c);
                        n += 1;
                    }
                }
            }
        }
    }
    // len_char_* spellings
    for (vi, len) in [0u128, 1, 2, 5].iter().enumerate() {
        for (fi, form) in ALL_FORMS.iter().enumerate() {
            for k in 0..2 {
                if tier == Tier::Quick && (vi + fi + k) % 2 != 0 {
                    continue;
                }
                let b = Bound { v: Val::U(*len), form: *form };
                let mut d = Decl::new(&format!("Sp{n}"), Inner::Str);
                d.validation = Validation::Std(vec![if k == 0 { Vd::LenCharMin(b) } else { Vd::LenCharMax(b) }]);
                d.derives = vec![Tr::Debug];
                if let Some(mut c) = decl_case(&d, "either", &format!("spelling:{form:?}")) {
                    c.probes = probes_for(&d, &d.name, &neighbourhood(d.inner, &[Val::U(*len)]));
                    cases.push(c);
                    n += 1;
                }
            }
        }
    }
    // (a') bounds written as arithmetic over UNTYPED literals: the value they denote depends on the type the
    // literals are inferred at - the inner type, as in `val < <expr>`. Re-typing the expression (a cast, a typed
    // `const`) evaluates it at the i32 / f64 defaults first.
    {
        let f32v = |x: f32| Val::f32(x);
        let exprs: Vec<(Inner, &str, Val)> = vec![
            (Inner::Int(IntTy::U64), "(1 << 31)", Val::U(1 << 31)),
            (Inner::Int(IntTy::I64), "(1 << 31)", Val::I(1 << 31)),
            (Inner::Int(IntTy::U32), "(1 << 31)", Val::U(1 << 31)),
            (Inner::Int(IntTy::U64), "(1 << 40) + 1", Val::U((1 << 40) + 1)),
            (Inner::Int(IntTy::U8), "!0 / 2", Val::U(127)),
            (Inner::Int(IntTy::U16), "!0 / 2", Val::U(32767)),
            (Inner::Int(IntTy::U8), "!0 >> 1", Val::U(127)),
            (Inner::Int(IntTy::I8), "!0 / 2", Val::I(0)),
            (Inner::Int(IntTy::U8), "(200 + 55)", Val::U(255)),
            (Inner::Int(IntTy::U16), "(256 * 255)", Val::U(65280)),
            (Inner::Int(IntTy::I16), "-(100 * 300)", Val::I(-30000)),
            (Inner::Int(IntTy::U128), "(1 << 100)", Val::U(1 << 100)),
            (Inner::F32, "(1.0 - 0.9)", f32v(1.0f32 - 0.9f32)),
            (Inner::F32, "(16777216.0 + 1.0)", f32v(16777216.0f32 + 1.0f32)),
            (Inner::F32, "(0.1 + 0.2)", f32v(0.1f32 + 0.2f32)),
            (Inner::F64, "(0.1 + 0.2)", Val::f64(0.1f64 + 0.2f64)),
            (Inner::F64, "(1.0 - 0.9)", Val::f64(1.0f64 - 0.9f64)),
        ];
        for (inner, expr, v) in exprs {
            for k in 0..4 {
                if (k == 0 && matches!(inner, Inner::Int(t) if v == t.max())) || (k == 2 && matches!(inner, Inner::Int(t) if v == t.min())) {
                    continue;
                }
                let name = format!("Ut{n}");
                let mut sem = Decl::new(&name, inner);
                sem.validation = Validation::Std(vec![mk(k, Bound::lit(v.clone()))]);
                let kind = ["greater", "greater_or_equal", "less", "less_or_equal"][k];
                let attr = format!("validate({kind} = {expr}), derive(Debug)");
                let mut c = raw_case("decl", "either", "spelling:untyped-literal-arithmetic", &attr, &format!("pub struct {name}({});", inner.ty_src()), "");
                c.text = format!("#[nutype({attr})] pub struct {name}({});", inner.ty_src());
                c.probes = probes_for(&sem, &name, &neighbourhood(inner, &[v.clone()]));
                cases.push(c);
                n += 1;
            }
        }
    }
    // (b) layouts: all 24 block orders, trailing commas, flags at every position
    let base = {
        let mut d = Decl::new("Lay", Inner::Str);
        d.sans = vec![San::Trim, San::Lower];
        d.validation = Validation::Std(vec![Vd::NotEmpty, Vd::LenCharMax(Bound::lit(Val::U(3)))]);
        d.derives = vec![Tr::Debug, Tr::Default, Tr::TryFrom];
        d.default = Some(Val::s(" Ab "));
        d
    };
    let str_inputs = neighbourhood(Inner::Str, &[Val::U(3)]);
    let blocks = [Block::Sanitize, Block::Validate, Block::Derive, Block::Default];
    let mut perms: Vec<Vec<Block>> = vec![];
    permute(&mut blocks.to_vec(), 0, &mut perms);
    for (pi, p) in perms.iter().enumerate() {
        for tc in [false, true] {
            if tier == Tier::Quick && (pi + tc as usize) % 3 != 0 {
                continue;
            }
            let mut d = base.clone();
            d.name = format!("Lay{n}");
            d.layout = p.clone();
            d.trailing_commas = tc;
            // const_fn cannot be used with String sanitizers; new_unchecked at a rotating position
            d.new_unchecked = pi % 2 == 0;
            if d.new_unchecked {
                d.layout.insert(pi % (d.layout.len() + 1), Block::NewUnchecked);
            }
            if let Some(mut c) = decl_case(&d, "accept", "layout") {
                c.probes = probes_for(&d, &d.name, &str_inputs);
                c.probes.push((format!("match ::std::panic::catch_unwind(|| format!(\"{{:?}}\", {}::default().into_inner())) {{ Ok(s) => s, Err(_) => \"PANIC\".to_string() }}", d.name), "default => \"ab\"".to_string()));
                cases.push(c);
                n += 1;
            }
        }
    }
    // const_fn at every position of an integer declaration
    for pos in 0..=3usize {
        let mut d = Decl::new(&format!("Lay{n}"), Inner::Int(IntTy::I32));
        d.sans = vec![San::With(UFn::CClamp, Spell::Path)];
        d.validation = Validation::Std(vec![Vd::GreaterOrEqual(Bound::lit(Val::I(12))), Vd::Less(Bound::lit(Val::I(90)))]);
        d.derives = vec![Tr::Debug];
        d.const_fn = true;
        let mut lay = vec![Block::Sanitize, Block::Validate, Block::Derive];
        lay.insert(pos, Block::ConstFn);
        d.layout = lay;
        if let Some(mut c) = decl_case(&d, "accept", "layout:const_fn") {
            c.probes = probes_for(&d, &d.name, &neighbourhood(d.inner, &[Val::I(12), Val::I(90), Val::I(10), Val::I(100)]));
            cases.push(c);
            n += 1;
        }
    }
    // repeated blocks: semantic = every written rule of every block
    let i32i = Inner::Int(IntTy::I32);
    let rep_inputs = neighbourhood(i32i, &[Val::I(1), Val::I(10), Val::I(5)]);
    let mut rep = |attr: &str, sem_sans: Vec<San>, sem_vs: Vec<Vd>, inner: Inner, ty: &str, class: &str, cases: &mut Vec<Case>, inputs: &[Val], n: &mut usize| {
        let name = format!("Rep{n}");
        let mut sem = Decl::new(&name, inner);
        sem.sans = sem_sans;
        sem.validation = if sem_vs.is_empty() { Validation::None } else { Validation::Std(sem_vs) };
        let mut c = raw_case("decl", "either", class, attr, &format!("pub struct {name}({ty});"), "");
        c.probes = probes_for(&sem, &name, inputs);
        c.text = format!("#[nutype({attr})] pub struct {name}({ty});");
        cases.push(c);
        *n += 1;
    };
    rep("validate(greater = 1), validate(less = 10)", vec![], vec![Vd::Greater(Bound::lit(Val::I(1))), Vd::Less(Bound::lit(Val::I(10)))], i32i, "i32", "repeated:validate", &mut cases, &rep_inputs, &mut n);
    rep("validate(less = 10), validate(greater = 1)", vec![], vec![Vd::Less(Bound::lit(Val::I(10))), Vd::Greater(Bound::lit(Val::I(1)))], i32i, "i32", "repeated:validate", &mut cases, &rep_inputs, &mut n);
    rep("validate(greater = 1), derive(Debug), validate(less = 10)", vec![], vec![Vd::Greater(Bound::lit(Val::I(1))), Vd::Less(Bound::lit(Val::I(10)))], i32i, "i32", "repeated:validate", &mut cases, &rep_inputs, &mut n);
    rep("validate(greater = 1), validate(less = 10), validate(predicate = ulib::is_even)", vec![], vec![Vd::Greater(Bound::lit(Val::I(1))), Vd::Less(Bound::lit(Val::I(10))), Vd::Predicate(UFn::IsEven, Spell::Path)], i32i, "i32", "repeated:validate", &mut cases, &rep_inputs, &mut n);
    rep("validate(greater = 5), validate(greater = 1)", vec![], vec![Vd::Greater(Bound::lit(Val::I(5))), Vd::Greater(Bound::lit(Val::I(1)))], i32i, "i32", "repeated:validate-same-kind", &mut cases, &rep_inputs, &mut n);
    rep("sanitize(with = ulib::clamp_10_100), sanitize(with = ulib::wrap_add1)", vec![San::With(UFn::Clamp10_100, Spell::Path), San::With(UFn::WrapAdd1, Spell::Path)], vec![], i32i, "i32", "repeated:sanitize", &mut cases, &neighbourhood(i32i, &[Val::I(10), Val::I(100)]), &mut n);
    rep("sanitize(trim), sanitize(lowercase)", vec![San::Trim, San::Lower], vec![], Inner::Str, "String", "repeated:sanitize", &mut cases, &str_inputs, &mut n);
    rep("sanitize(lowercase), validate(not_empty), sanitize(trim)", vec![San::Lower, San::Trim], vec![Vd::NotEmpty], Inner::Str, "String", "repeated:sanitize", &mut cases, &str_inputs, &mut n);
    rep("sanitize(trim), sanitize(trim, lowercase)", vec![San::Trim, San::Trim, San::Lower], vec![], Inner::Str, "String", "repeated:sanitize", &mut cases, &str_inputs, &mut n);
    rep("validate(not_empty), validate(len_char_max = 3)", vec![], vec![Vd::NotEmpty, Vd::LenCharMax(Bound::lit(Val::U(3)))], Inner::Str, "String", "repeated:validate", &mut cases, &str_inputs, &mut n);
    rep("validate(finite), validate(less = 10.0)", vec![], vec![Vd::Finite, Vd::Less(Bound::lit(Val::f64(10.0)))], Inner::F64, "f64", "repeated:validate", &mut cases, &neighbourhood(Inner::F64, &[Val::f64(10.0)]), &mut n);
    // `with`/`error` mixed with built-in validators: both cannot be honoured by the current design, so the
    // declaration must be refused whatever the written order
    for (attr, ty) in [
        ("validate(less_or_equal = 100, with = ulib::check_int, error = NumErr)", "i32"),
        ("validate(with = ulib::check_int, error = NumErr, less_or_equal = 100)", "i32"),
        ("validate(with = ulib::check_int, less_or_equal = 100, error = NumErr)", "i32"),
        ("validate(greater = 1, less = 10, with = ulib::check_int, error = NumErr)", "i32"),
        ("validate(finite, with = ulib::check_float, error = NumErr)", "f64"),
        ("validate(error = NumErr, finite, with = ulib::check_float)", "f64"),
        ("validate(not_empty, with = ulib::check_str, error = StrErr)", "String"),
        ("validate(len_char_max = 3, error = StrErr, with = ulib::check_str)", "String"),
        ("validate(predicate = ulib::vec_short, with = ulib::check_vec, error = VecErr)", "Vec<i64>"),
    ] {
        let name = format!("Mix{n}");
        let mut c = raw_case("decl", "reject", "mixed:with-and-builtin", attr, &format!("pub struct {name}({ty});"), "");
        c.text = format!("#[nutype({attr})] pub struct {name}({ty});");
        cases.push(c);
        n += 1;
    }
    // repeated derive: both blocks' traits must exist (checked by a `use` module), or the declaration is refused
    {
        let name = format!("Rep{n}");
        let decl_idx = cases.len();
        let mut c = raw_case("decl", "either", "repeated:derive", "derive(Debug), derive(Clone)", &format!("pub struct {name}(i32);"), "");
        c.text = format!("#[nutype(derive(Debug), derive(Clone))] pub struct {name}(i32);");
        cases.push(c);
        let mut u = Case::new("use", "accept", "repeated:derive", format!("fn d<T: core::fmt::Debug>() {{}}\nfn c<T: Clone>() {{}}\npub fn uses() {{ d::<{name}>(); c::<{name}>(); }}\n"));
        u.belongs_to = Some(decl_idx);
        u.text = format!("uses Debug and Clone of {name}");
        cases.push(u);
        n += 1;
    }
    // repeated default: two different defaults cannot both be honoured
    {
        let name = format!("Rep{n}");
        let mut c = raw_case("decl", "reject", "repeated:default", "default = 1, derive(Default, Debug), default = 2", &format!("pub struct {name}(i32);"), "");
        c.text = format!("#[nutype(default = 1, derive(Default, Debug), default = 2)] pub struct {name}(i32);");
        cases.push(c);
        n += 1;
    }
    // (d) every written rule of every validator list, in every written order: the runtime pool's
    // declarations (all permutations of the validator subsets per family, literal and constant bounds)
    // re-checked rule by rule on the neighbourhood of every bound plus NaN / infinities / extremes.
    // A rule that is dropped because another rule "implies" it shows up here.
    for (k, s) in ntcore::grammar::rt_subjects(tier).iter().enumerate() {
        let d0 = &s.decl;
        if d0.std_validators().len() < 2 || d0.family() == Family::Any || d0.const_fn {
            continue;
        }
        let every = if tier == Tier::Quick { 2 } else { 5 };
        if k % every != 0 {
            continue;
        }
        let mut d = d0.clone();
        d.name = format!("Ro{k}");
        d.derives = vec![Tr::Debug];
        d.default = None;
        let centers = ntcore::domain::decl_bounds(&d);
        let inputs = neighbourhood(d.inner, &centers);
        if let Some(mut c) = decl_case(&d, "accept", "rule-order") {
            c.probes = probes_for(&d, &d.name, &inputs);
            cases.push(c);
        }
    }
    // (e) every written sanitizer, at its written position: all string sanitizer lists with two or more steps
    // (every order of trim / lowercase|uppercase / a custom step), probed on all strings up to length 3 over an
    // alphabet in which each step has something to do and the steps do not commute (' ', 'x' for strip_x, 'A',
    // 'ß', NO-BREAK SPACE: whitespace outside ASCII, ZERO WIDTH SPACE: not whitespace, so "\u{200b} x" tells `trim` before from `trim` after strip_x)
    let alpha = [' ', 'x', 'A', 'ß', '\u{200b}', '\u{a0}'];
    let mut probes_in: Vec<Val> = vec![Val::s("")];
    let mut layer: Vec<String> = vec![String::new()];
    for _ in 0..3 {
        let mut next = vec![];
        for w in &layer {
            for c in alpha {
                let mut t = w.clone();
                t.push(c);
                next.push(t);
            }
        }
        probes_in.extend(next.iter().map(|t| Val::S(t.clone())));
        layer = next;
    }
    for (k, sl) in ntcore::grammar::string_sanlists().into_iter().enumerate() {
        if sl.len() < 2 || (tier == Tier::Quick && sl.len() == 2 && k % 2 == 1) {
            continue;
        }
        for with_validation in [false, true] {
            let mut d = Decl::new(&format!("So{k}{}", if with_validation { "v" } else { "" }), Inner::Str);
            d.sans = sl.clone();
            if with_validation {
                d.validation = Validation::Std(vec![Vd::LenCharMax(Bound::lit(Val::U(2)))]);
            }
            d.derives = vec![Tr::Debug];
            if let Some(mut c) = decl_case(&d, "accept", "sanitizer-order") {
                c.probes = probes_for(&d, &d.name, &probes_in);
                cases.push(c);
            }
        }
    }
    let _ = n;
    cases
}

fn permute(v: &mut Vec<Block>, k: usize, out: &mut Vec<Vec<Block>>) {
    if k == v.len() {
        out.push(v.clone());
        return;
    }
    for i in k..v.len() {
        v.swap(k, i);
        permute(v, k + 1, out);
        v.swap(k, i);
    }
}

// ------------------------------------------------------------------------------------------------
// C08: admissibility

fn fam_types() -> Vec<(Family, Inner, &'static str)> {
    vec![(Family::Int, Inner::Int(IntTy::I32), "i32"), (Family::Float, Inner::F64, "f64"), (Family::Str, Inner::Str, "String"), (Family::Any, Inner::VecI64, "Vec<i64>")]
}

pub fn c08_cases(tier: Tier) -> Vec<Case> {
    let mut cases: Vec<Case> = vec![];
    let mut n = 0usize;
    let mut raw = |expect: &'static str, class: &str, attr: &str, item: &str, extra: &str, cases: &mut Vec<Case>| {
        let mut c = raw_case("decl", expect, class, attr, item, extra);
        c.text = format!("{extra} #[nutype({attr})] {item}");
        cases.push(c);
    };
    for (fam, _inner, ty) in fam_types() {
        let nm = |n: &mut usize| {
            *n += 1;
            format!("A{}", *n)
        };
        // a valid validate() block for the family, to make unrelated parts well-formed
        let okv = match fam {
            Family::Int => "validate(greater = 1)",
            Family::Float => "validate(greater = 1.0)",
            Family::Str => "validate(not_empty)",
            Family::Any => "validate(predicate = |v| !v.is_empty())",
        };
        // 1. visible inner field
        for vis in ["pub", "pub(crate)", "pub(super)"] {
            let name = nm(&mut n);
            raw("reject", "visible-inner-field", "derive(Debug)", &format!("pub struct {name}({vis} {ty});"), "", &mut cases);
        }
        // 2. foreign attributes / derive
        for at in ["#[derive(Debug)]", "#[derive(Default)]", "#[repr(transparent)]", "#[allow(dead_code)]", "#[cfg_attr(all(), derive(Default))]", "#[must_use]", "#[non_exhaustive]"] {
            let name = nm(&mut n);
            let mut c = Case::new("decl", "reject", "foreign-attribute", format!("#[nutype(derive(Clone))]\n{at}\npub struct {name}({ty});\n"));
            c.mx = Some(("derive(Clone)".into(), format!("{at} pub struct {name}({ty});")));
            cases.push(c);
        }
        // doc comments are fine
        {
            let name = nm(&mut n);
            let mut c = Case::new("control", "accept", "doc-attribute", format!("#[nutype(derive(Debug))]\n/// documented\n#[doc = \"more\"]\npub struct {name}({ty});\n"));
            c.mx = Some(("derive(Debug)".into(), format!("/// documented\n#[doc = \"more\"] pub struct {name}({ty});")));
            cases.push(c);
        }
        // 3. unknown / wrong-family / wrong-case items
        let mut bad_attrs: Vec<(&str, String)> = vec![
            ("unknown-sanitizer", "sanitize(trimm)".into()),
            ("unknown-sanitizer", "sanitize(Trim)".into()),
            ("unknown-sanitizer", "sanitize(TRIM)".into()),
            ("unknown-sanitizer", "sanitize(With = |v| v)".into()),
            ("unknown-validator", "validate(max_len = 3)".into()),
            ("unknown-validator", "validate(Greater = 1)".into()),
            ("unknown-validator", "validate(GREATER = 1)".into()),
            ("unknown-validator", "validate(greaterOrEqual = 1)".into()),
            ("unknown-validator", "validate(NotEmpty)".into()),
            ("unknown-validator", "validate(lenCharMax = 3)".into()),
            ("unknown-validator", "validate(Finite)".into()),
            ("unknown-trait", "derive(Foo)".into()),
            ("unknown-trait", "derive(debug)".into()),
            ("unknown-trait", "derive(DerefMut)".into()),
            ("unknown-trait", "derive(AsMut)".into()),
            ("unknown-trait", "derive(BorrowMut)".into()),
            ("unknown-trait", "derive(serde::Serialize)".into()),
            ("unknown-attribute", "foo".into()),
            ("unknown-attribute", "sanitise(trim)".into()),
            ("unknown-attribute", "validates(not_empty)".into()),
            ("missing-parentheses", "sanitize".into()),
            ("missing-parentheses", "validate".into()),
            ("missing-parentheses", "derive".into()),
            ("empty-validate", "validate()".into()),
            ("with-without-error", "validate(with = |_| Ok(()))".into()),
            ("error-without-with", "validate(error = NumErr)".into()),
            ("duplicate-with", format!("validate(with = ulib::check_int, with = ulib::check_int, error = NumErr)")),
            ("duplicate-error", format!("validate(with = ulib::check_int, error = NumErr, error = NumErr)")),
            ("default-without-default", "derive(Default)".into()),
            ("from-with-validation", format!("{okv}, derive(From)")),
        ];
        match fam {
            Family::Int => {
                bad_attrs.extend([
                    ("wrong-family-sanitizer", "sanitize(trim)".to_string()),
                    ("wrong-family-sanitizer", "sanitize(lowercase)".into()),
                    ("wrong-family-validator", "validate(finite)".into()),
                    ("wrong-family-validator", "validate(not_empty)".into()),
                    ("wrong-family-validator", "validate(len_char_max = 3)".into()),
                    ("wrong-family-validator", "validate(regex = \"a\")".into()),
                    ("with-mixed", "validate(with = ulib::check_int, error = NumErr, greater = 1)".into()),
                    ("with-mixed", "validate(greater = 1, with = ulib::check_int, error = NumErr)".into()),
                    ("with-mixed", "validate(less_or_equal = 100, error = NumErr, with = ulib::check_int)".into()),
                    ("with-mixed", "validate(with = ulib::check_int, predicate = ulib::is_even, error = NumErr)".into()),
                    ("with-mixed", "validate(error = NumErr, greater = 1, with = ulib::check_int)".into()),
                    ("duplicate-validator", "validate(greater = 1, greater = 2)".into()),
                    ("duplicate-validator", "validate(less = 1, less = 1)".into()),
                    ("duplicate-validator", "validate(predicate = ulib::is_even, predicate = ulib::not_13)".into()),
                    ("duplicate-sanitizer", "sanitize(with = ulib::to_even, with = ulib::wrap_add1)".into()),
                    ("two-lower-bounds", "validate(greater = 1, greater_or_equal = 1)".into()),
                    ("two-upper-bounds", "validate(less = 5, less_or_equal = 7)".into()),
                    ("trait-unsupported-by-inner-type", "derive(IntoIterator)".into()),
                ]);
            }
            Family::Float => {
                bad_attrs.extend([
                    ("wrong-family-sanitizer", "sanitize(trim)".to_string()),
                    ("wrong-family-validator", "validate(not_empty)".into()),
                    ("wrong-family-validator", "validate(len_char_min = 3)".into()),
                    ("with-mixed", "validate(with = ulib::check_float, error = NumErr, finite)".into()),
                    ("with-mixed", "validate(finite, with = ulib::check_float, error = NumErr)".into()),
                    ("with-mixed", "validate(less = 5.0, error = NumErr, with = ulib::check_float)".into()),
                    ("with-mixed", "validate(with = ulib::check_float, greater = 1.0, error = NumErr)".into()),
                    ("bitwise-not-on-float-bound", "validate(greater = !1.0)".into()),
                    ("bitwise-not-on-float-bound", "validate(less_or_equal = !0)".into()),
                    ("bitwise-not-on-float-bound", "validate(less = !7)".into()),
                    ("duplicate-validator", "validate(finite, finite)".into()),
                    ("duplicate-validator", "validate(greater = 1.0, finite, greater = 2.0)".into()),
                    ("two-lower-bounds", "validate(greater = 1.0, greater_or_equal = 1.0)".into()),
                    ("two-upper-bounds", "validate(less_or_equal = 5.0, less = 7.0)".into()),
                    ("float-eq-ord-without-finite", "derive(PartialEq, Eq)".into()),
                    ("float-eq-ord-without-finite", "validate(greater = 0.0), derive(PartialEq, Eq)".into()),
                    ("float-eq-ord-without-finite", "validate(greater = 0.0, less = 1.0), derive(PartialEq, Eq, PartialOrd, Ord)".into()),
                    ("float-eq-ord-without-finite", "validate(predicate = |v| v.is_finite()), derive(PartialEq, Eq)".into()),
                    ("float-eq-ord-without-finite", "validate(with = ulib::check_float, error = NumErr), derive(PartialEq, Eq, PartialOrd, Ord)".into()),
                    ("float-eq-ord-without-finite", "sanitize(with = ulib::nan_to_zero), derive(PartialEq, Eq)".into()),
                    ("eq-without-partialeq", "validate(finite), derive(Eq)".into()),
                    ("ord-without-partialord-eq", "validate(finite), derive(PartialEq, Eq, Ord)".into()),
                    ("ord-without-partialord-eq", "validate(finite), derive(PartialEq, PartialOrd, Ord)".into()),
                    ("trait-unsupported-by-inner-type", "derive(Hash)".into()),
                    ("trait-unsupported-by-inner-type", "validate(finite), derive(PartialEq, Eq, Hash)".into()),
                    ("trait-unsupported-by-inner-type", "derive(IntoIterator)".into()),
                ]);
            }
            Family::Str => {
                bad_attrs.extend([
                    ("wrong-family-validator", "validate(greater = 1)".to_string()),
                    ("wrong-family-validator", "validate(finite)".into()),
                    ("wrong-family-validator", "validate(less_or_equal = 3)".into()),
                    ("lowercase-and-uppercase", "sanitize(lowercase, uppercase)".into()),
                    ("lowercase-and-uppercase", "sanitize(uppercase, trim, lowercase)".into()),
                    ("duplicate-sanitizer", "sanitize(trim, trim)".into()),
                    ("duplicate-sanitizer", "sanitize(trim, lowercase, trim)".into()),
                    ("duplicate-sanitizer", "sanitize(with = ulib::strip_x, with = ulib::dup)".into()),
                    ("duplicate-validator", "validate(not_empty, not_empty)".into()),
                    ("duplicate-validator", "validate(len_char_max = 3, len_char_max = 4)".into()),
                    ("duplicate-validator", "validate(regex = \"a\", regex = \"b\")".into()),
                    ("with-mixed", "validate(with = ulib::check_str, error = StrErr, not_empty)".into()),
                    ("with-mixed", "validate(not_empty, with = ulib::check_str, error = StrErr)".into()),
                    ("with-mixed", "validate(len_char_max = 5, error = StrErr, with = ulib::check_str)".into()),
                    ("with-mixed", "validate(error = StrErr, regex = \"a\", with = ulib::check_str)".into()),
                    ("contradictory-literal-bounds", "validate(len_char_min = 5, len_char_max = 3)".into()),
                    ("contradictory-literal-bounds", "validate(len_char_max = 0, len_char_min = 1)".into()),
                    ("invalid-regex", "validate(regex = \"(\")".into()),
                    ("invalid-regex", "validate(regex = \"[a-\")".into()),
                    ("invalid-regex", "validate(not_empty, regex = \"a{2,1}\")".into()),
                    ("invalid-regex", "validate(regex = r\"^\\w{3000}$\")".into()),
                    ("invalid-regex", "validate(regex = \"^\\\\w{3000}$\", len_char_max = 4000)".into()),
                    ("trait-unsupported-by-inner-type", "derive(Copy, Clone)".into()),
                    ("trait-unsupported-by-inner-type", "derive(IntoIterator)".into()),
                ]);
            }
            Family::Any => {
                bad_attrs.extend([
                    ("wrong-family-sanitizer", "sanitize(trim)".to_string()),
                    ("wrong-family-validator", "validate(greater = 1)".into()),
                    ("wrong-family-validator", "validate(not_empty)".into()),
                    ("wrong-family-validator", "validate(finite)".into()),
                    ("with-mixed", "validate(with = ulib::check_vec, error = VecErr, predicate = ulib::vec_short)".into()),
                    ("with-mixed", "validate(predicate = ulib::vec_short, with = ulib::check_vec, error = VecErr)".into()),
                    ("with-mixed", "validate(error = VecErr, predicate = ulib::vec_short, with = ulib::check_vec)".into()),
                    ("duplicate-validator", "validate(predicate = ulib::vec_short, predicate = ulib::vec_nonempty)".into()),
                    ("duplicate-sanitizer", "sanitize(with = ulib::sort_dedup, with = ulib::sort_dedup)".into()),
                ]);
            }
        }
        for (class, attr) in bad_attrs {
            let name = nm(&mut n);
            let attr = attr.replace("ulib::check_int", match fam {
                Family::Int => "ulib::check_int",
                Family::Float => "ulib::check_float",
                Family::Str => "ulib::check_str",
                Family::Any => "ulib::check_vec",
            });
            let attr = attr.replace("NumErr", match fam {
                Family::Str => "StrErr",
                Family::Any => "VecErr",
                _ => "NumErr",
            });
            raw("reject", class, &attr, &format!("pub struct {name}({ty});"), "", &mut cases);
        }
        // 4. literal bounds in every relative position (numeric families)
        if matches!(fam, Family::Int | Family::Float) {
            let lit = |x: i32| if fam == Family::Float { format!("{x}.0") } else { format!("{x}") };
            for (lk, lx) in [("greater", true), ("greater_or_equal", false)] {
                for (uk, ux) in [("less", true), ("less_or_equal", false)] {
                    for (lo, up) in [(5, 4), (5, 5), (5, 6), (5, 7), (-3, -4), (-3, -3), (0, 0), (-1, 0), (7, -7)] {
                        for swap in [false, true] {
                            let name = nm(&mut n);
                            let contradictory = lo > up || (lo == up && (lx || ux));
                            let a = format!("{lk} = {}", lit(lo));
                            let b = format!("{uk} = {}", lit(up));
                            let attr = if swap { format!("validate({b}, {a})") } else { format!("validate({a}, {b})") };
                            let (expect, class) = if contradictory {
                                ("reject", "contradictory-literal-bounds")
                            } else if fam == Family::Int && lx && ux && up - lo == 1 {
                                ("either", "empty-but-not-contradictory")
                            } else {
                                ("accept", "consistent-literal-bounds")
                            };
                            raw(expect, class, &attr, &format!("pub struct {name}({ty});"), "", &mut cases);
                        }
                    }
                }
            }
        }
        // 5. struct shapes
        for (class, item) in [("not-a-tuple-struct", "pub struct NAME;".to_string()), ("not-a-tuple-struct", format!("pub struct NAME {{ a: {ty} }}")), ("not-a-tuple-struct", format!("pub enum NAME {{ A({ty}) }}")), ("not-a-tuple-struct", "pub struct NAME();".to_string()), ("not-a-tuple-struct", format!("pub union NAME {{ a: {ty} }}"))] {
            let name = nm(&mut n);
            raw("reject", class, "derive(Debug)", &item.replace("NAME", &name), "", &mut cases);
        }
        {
            // a second field is silently dropped by the macro (the expansion has one field). That alters
            // what the user wrote but does not void the guarantee, and the property's reject list does not
            // name it: grey zone (recorded as an observation in DESIGN.md)
            let name = nm(&mut n);
            raw("either", "two-fields", "derive(Debug)", &format!("pub struct {name}({ty}, {ty});"), "", &mut cases);
        }
    }
    // 6. well-formed declarations that must be accepted: names that generated code also uses
    for name in ["T", "D", "S", "E", "DE", "V", "Error", "Result", "Option", "Ok", "Self_", "Value", "Visitor", "String_", "R", "A", "U", "F"] {
        // as the type name
        let attr = "validate(greater = 1), derive(Debug, Clone, Copy, PartialEq, Eq, PartialOrd, Ord, FromStr, AsRef, Deref, TryFrom, Into, Hash, Borrow, Display, Serialize, Deserialize)";
        // a newtype that shadows a prelude name the expansion relies on (Option / Result / Ok) is pathological:
        // grey zone, not decided by the property
        let expect = if ["Result", "Option", "Ok"].contains(&name) { "either" } else { "accept" };
        let mut c = raw_case("decl", expect, "name:type", attr, &format!("pub struct {name}(i32);"), "");
        c.text = format!("#[nutype({attr})] pub struct {name}(i32);");
        cases.push(c);
        // as a type parameter name
        for derives in ["Debug, Clone, PartialEq, AsRef, Deref, Borrow", "Serialize", "Deserialize", "Debug, FromStr", "Debug, Display", "Debug, Default", "Debug, TryFrom", "Debug, From", "Clone, Into", "Debug, Arbitrary", "Debug, Hash, PartialEq, Eq, PartialOrd, Ord"] {
            // a type parameter that shadows a prelude name the expansion relies on is as pathological as a
            // type of that name (grey zone): not part of the accept set
            if name.ends_with('_') || name == "Self_" || ["Result", "Option", "Ok"].contains(&name) {
                continue;
            }
            if tier == Tier::Quick && !["T", "D", "S", "E", "DE", "V", "Error"].contains(&name) {
                continue;
            }
            n += 1;
            let tn = format!("G{n}");
            let bare = derives.contains("Display") || derives.contains("FromStr");
            let inner_ty = if bare { name.to_string() } else { format!("Vec<{name}>") };
            let def = if derives.contains("Default") { ", default = Vec::new()".to_string() } else { String::new() };
            let bound = format!("<{name}>");
            let attr = format!("derive({derives}){def}");
            let mut c = raw_case("decl", "accept", &format!("name:type-param:{}", derives.replace(", ", "+")), &attr, &format!("pub struct {tn}{bound}({inner_ty});"), "");
            c.text = format!("#[nutype({attr})] pub struct {tn}{bound}({inner_ty});");
            cases.push(c);
        }
    }
    // generic newtypes with trait bounds: every derivable trait singly
    for tr in ["Debug", "Clone", "PartialEq", "PartialEq, Eq", "PartialEq, PartialOrd", "AsRef", "Deref", "Borrow", "From", "TryFrom", "Into", "Hash", "Serialize", "Deserialize", "Arbitrary", "IntoIterator", "Default"] {
        n += 1;
        let tn = format!("B{n}");
        let def = if tr == "Default" { ", default = Vec::new()" } else { "" };
        let attr = format!("sanitize(with = ulib::sort_dedup), derive({tr}){def}");
        let mut c = raw_case("decl", "accept", &format!("generic-with-bounds:{}", tr.replace(", ", "+")), &attr, &format!("pub struct {tn}<T: Ord>(Vec<T>);"), "");
        c.text = format!("#[nutype({attr})] pub struct {tn}<T: Ord>(Vec<T>);");
        cases.push(c);
    }
    // 7. derive sets through the whole pipeline: every subset of size <= 2 of a family's derivable traits
    for (fam, inner, ty) in fam_types() {
        let guards: Vec<(admit::GuardShape, &str)> = match fam {
            Family::Int => vec![(admit::GuardShape::None, ""), (admit::GuardShape::Std, "validate(greater = 1), ")],
            Family::Float => vec![(admit::GuardShape::None, ""), (admit::GuardShape::Std, "validate(greater = 1.0), "), (admit::GuardShape::StdFinite, "validate(finite), ")],
            Family::Str => vec![(admit::GuardShape::None, ""), (admit::GuardShape::Std, "validate(not_empty), ")],
            Family::Any => vec![(admit::GuardShape::None, ""), (admit::GuardShape::StdPred, "validate(predicate = ulib::vec_short), ")],
        };
        let traits: Vec<Tr> = ALL_TRAITS.iter().cloned().filter(|t| *t != Tr::JsonSchema).collect();
        for (g, gattr) in &guards {
            let mut sets: Vec<Vec<Tr>> = vec![];
            for a in 0..traits.len() {
                sets.push(vec![traits[a]]);
                for b in (a + 1)..traits.len() {
                    if tier == Tier::Quick && (a + b) % 4 != 0 {
                        continue;
                    }
                    sets.push(vec![traits[a], traits[b]]);
                }
            }
            for set in sets {
                let has_default = set.contains(&Tr::Default) && (set.len() + n) % 2 == 0;
                let v = admit::derive_verdict(fam, *g, &set, has_default, false, Features::ALL);
                let (expect, class): (&'static str, String) = match &v {
                    Verdict::MustAccept => ("accept", "derive-set".into()),
                    Verdict::MustReject(c) | Verdict::MacroMustReject(c) => ("reject", c.to_string()),
                    Verdict::Either(c) => ("either", c.to_string()),
                };
                // rustc-level prerequisites of the inner type (Vec<i64> is not Copy / Display / FromStr)
                let (expect, class) = if fam == Family::Any && expect == "accept" && set.iter().any(|t| matches!(t, Tr::Copy | Tr::Display | Tr::FromStr)) { ("either", "inner-type-lacks-trait".to_string()) } else { (expect, class) };
                n += 1;
                let name = format!("Ds{n}");
                let def = if has_default {
                    match fam {
                        Family::Int => ", default = 5",
                        Family::Float => ", default = 5.0",
                        Family::Str => ", default = \"abc\"",
                        Family::Any => ", default = vec![1]",
                    }
                } else {
                    ""
                };
                let names: Vec<&str> = set.iter().map(|t| t.name()).collect();
                let attr = format!("{gattr}derive({}){def}", names.join(", "));
                let mut c = raw_case("decl", expect, &class, &attr, &format!("pub struct {name}({ty});"), "");
                c.text = format!("#[nutype({attr})] pub struct {name}({ty});");
                let _ = inner;
                cases.push(c);
            }
        }
    }
    cases
}

/// C08 part 2: expression-valued bounds / defaults are checked by the unit tests nutype generates into the
/// user's crate: the test must fail exactly when REF says the literal analogue is contradictory / invalid.
pub fn c08_test_cases(_tier: Tier) -> Vec<Case> {
    let mut cases = vec![];
    let mut n = 0;
    for (ty, lit) in [("i32", false), ("u8", false), ("f64", true), ("f32", true)] {
        let l = |x: i32| if lit { format!("{x}.0") } else { format!("{x}") };
        for (lk, lx) in [("greater", true), ("greater_or_equal", false)] {
            for (uk, ux) in [("less", true), ("less_or_equal", false)] {
                for (lo, up) in [(5, 4), (5, 5), (5, 6), (5, 7), (0, 0), (3, 100)] {
                    n += 1;
                    let name = format!("Xb{n}");
                    let contradictory = lo > up || (lo == up && (lx || ux));
                    let extra = format!("pub const LO: {ty} = {};\npub const UP: {ty} = {};", l(lo), l(up));
                    let attr = format!("validate({lk} = LO, {uk} = UP)");
                    let mut c = raw_case("decl", "accept", "expression-bounds", &attr, &format!("pub struct {name}({ty});"), &extra);
                    c.text = format!("{extra} #[nutype({attr})] pub struct {name}({ty});");
                    c.tests.push(("should_have_consistent_lower_and_upper_boundaries".into(), contradictory));
                    cases.push(c);
                }
            }
        }
    }
    for (mn, mx) in [(5, 3), (3, 3), (0, 0), (1, 0), (2, 10)] {
        // both bounds constants, and each mix of one literal with one constant (the macro can evaluate neither pair)
        for (lmn, lmx) in [(false, false), (true, false), (false, true)] {
            n += 1;
            let name = format!("Xb{n}");
            let extra = format!("pub const MN: usize = {mn};\npub const MX: usize = {mx};");
            let attr = format!("validate(len_char_min = {}, len_char_max = {})", if lmn { mn.to_string() } else { "MN".into() }, if lmx { mx.to_string() } else { "MX".into() });
            let mut c = raw_case("decl", "accept", "expression-bounds", &attr, &format!("pub struct {name}(String);"), &extra);
            c.text = format!("{extra} #[nutype({attr})] pub struct {name}(String);");
            c.tests.push(("should_have_consistent_len_char_boundaries".into(), mn > mx));
            cases.push(c);
        }
    }
    // numeric: one literal + one constant
    for (ty, lit) in [("i16", false), ("f64", true)] {
        let l = |x: i32| if lit { format!("{x}.0") } else { format!("{x}") };
        for (lo, up) in [(5, 4), (5, 5), (5, 6), (-3, -4)] {
            for lit_lower in [true, false] {
                for (lk, lx, uk, ux) in [("greater", true, "less", true), ("greater_or_equal", false, "less_or_equal", false), ("greater", true, "less_or_equal", false)] {
                    n += 1;
                    let name = format!("Xb{n}");
                    let contradictory = lo > up || (lo == up && (lx || ux));
                    let extra = format!("pub const LO: {ty} = {};\npub const UP: {ty} = {};", l(lo), l(up));
                    let attr = format!("validate({lk} = {}, {uk} = {})", if lit_lower { l(lo) } else { "LO".into() }, if lit_lower { "UP".to_string() } else { l(up) });
                    let mut c = raw_case("decl", "accept", "expression-bounds", &attr, &format!("pub struct {name}({ty});"), &extra);
                    c.text = format!("{extra} #[nutype({attr})] pub struct {name}({ty});");
                    c.tests.push(("should_have_consistent_lower_and_upper_boundaries".into(), contradictory));
                    cases.push(c);
                }
            }
        }
    }
    // defaults: valid / invalid / valid only after sanitisation
    let defaults: Vec<(&str, &str, &str, bool)> = vec![
        ("i32", "validate(greater = 1, less = 10), derive(Default)", "5", false),
        ("i32", "validate(greater = 1, less = 10), derive(Default)", "10", true),
        ("i32", "validate(greater = 1, less = 10), derive(Default)", "1", true),
        ("i32", "sanitize(with = ulib::clamp_10_100), validate(greater_or_equal = 10), derive(Default)", "0", false),
        ("i32", "validate(predicate = ulib::is_even), derive(Default)", "3", true),
        ("f64", "validate(finite), derive(Default)", "f64::NAN", true),
        ("f64", "validate(finite), derive(Default)", "f64::INFINITY", true),
        ("f64", "validate(finite, greater = 0.0), derive(Default)", "0.5", false),
        ("f64", "validate(with = ulib::check_float, error = NumErr), derive(Default)", "-1.0", true),
        ("String", "sanitize(trim), validate(not_empty), derive(Default)", "\"  \"", true),
        ("String", "sanitize(trim), validate(not_empty), derive(Default)", "\" a \"", false),
        ("String", "validate(len_char_max = 2), derive(Default)", "\"abc\"", true),
        ("Vec<i64>", "validate(predicate = ulib::vec_nonempty), derive(Default)", "vec![]", true),
        ("Vec<i64>", "validate(predicate = ulib::vec_nonempty), derive(Default)", "vec![1]", false),
    ];
    for (ty, attr, def, invalid) in defaults {
        n += 1;
        let name = format!("Xd{n}");
        let attr = format!("{attr}, default = {def}");
        let mut c = raw_case("decl", "accept", "default-expression", &attr, &format!("pub struct {name}({ty});"), "");
        c.text = format!("#[nutype({attr})] pub struct {name}({ty});");
        c.tests.push(("should_have_valid_default_value".into(), invalid));
        cases.push(c);
    }
    cases
}

// ------------------------------------------------------------------------------------------------
// C05: bypass attempts

pub struct Target {
    pub name: String,
    pub attr: String,
    pub item: String,
    pub inner_ty: &'static str,
    /// expression of the inner type (valid for the declaration)
    pub val: &'static str,
    /// expression creating a value through the guarded constructor
    pub mk: String,
    pub is_vec: bool,
    pub is_string: bool,
    pub has_deref: bool,
    pub has_default: bool,
    pub has_validation: bool,
    pub new_unchecked: bool,
    pub vis: Vis,
    /// the type as written in type position (`Tg9<i64>` for a generic target, else the name)
    pub xt: String,
}

fn targets(tier: Tier) -> Vec<Target> {
    let mut out = vec![];
    let mut n = 0;
    let all_int = "Debug, Clone, Copy, PartialEq, Eq, PartialOrd, Ord, FromStr, AsRef, Deref, TryFrom, Into, Hash, Borrow, Display, Serialize, Deserialize, Arbitrary";
    let all_float = "Debug, Clone, Copy, PartialEq, Eq, PartialOrd, Ord, FromStr, AsRef, Deref, TryFrom, Into, Borrow, Display, Serialize, Deserialize, Arbitrary";
    let all_str = "Debug, Clone, PartialEq, Eq, PartialOrd, Ord, FromStr, AsRef, Deref, TryFrom, Into, Hash, Borrow, Display, Serialize, Deserialize, Arbitrary";
    let all_vec = "Debug, Clone, PartialEq, Eq, PartialOrd, Ord, AsRef, Deref, TryFrom, Into, Hash, Borrow, IntoIterator, Serialize, Deserialize";
    let mut add = |attr: String, ty: &'static str, val: &'static str, vis: Vis, has_validation: bool, out: &mut Vec<Target>, n: &mut usize| {
        *n += 1;
        let name = format!("Tg{n}");
        let mk = if has_validation { format!("{name}::try_new({val}).unwrap()") } else { format!("{name}::new({val})") };
        let generic = attr.contains("/*generic*/");
        let attr = attr.replace("/*generic*/", "");
        out.push(Target {
            xt: if generic { format!("{name}<i64>") } else { name.clone() },
            item: if generic { format!("{}struct {name}<T: Ord>(Vec<T>);", vis.src()) } else { format!("{}struct {name}({ty});", vis.src()) },
            inner_ty: ty,
            val,
            mk,
            is_vec: ty == "Vec<i64>",
            is_string: ty == "String",
            has_deref: attr.contains("Deref"),
            has_default: attr.contains("default ="),
            has_validation,
            new_unchecked: attr.contains("new_unchecked"),
            vis,
            name,
            attr,
        });
    };
    add(format!("validate(greater = 1, less = 10), derive({all_int})"), "i32", "5", Vis::Pub, true, &mut out, &mut n);
    add(format!("sanitize(trim, lowercase), validate(not_empty, len_char_max = 8), derive({all_str})"), "String", "\"abc\".to_string()", Vis::Pub, true, &mut out, &mut n);
    add(format!("sanitize(with = ulib::sort_dedup), validate(predicate = ulib::vec_nonempty), derive({all_vec})"), "Vec<i64>", "vec![1i64, 2]", Vis::Pub, true, &mut out, &mut n);
    add(format!("validate(finite, greater_or_equal = 0.0), derive({all_float})"), "f64", "0.5", Vis::Pub, true, &mut out, &mut n);
    add(format!("validate(greater = 1), derive({all_int}, Default), default = 5, new_unchecked"), "i32", "5", Vis::Pub, true, &mut out, &mut n);
    add(format!("sanitize(with = ulib::clamp_10_100), derive(Debug, Clone, Copy, AsRef, Deref, Borrow, From, Into, Default), default = 50"), "i32", "50", Vis::PubCrate, false, &mut out, &mut n);
    add("validate(not_empty), derive(Debug, Deref, AsRef, Borrow)".to_string(), "String", "\"abc\".to_string()", Vis::Private, true, &mut out, &mut n);
    add(format!("validate(predicate = ulib::vec_short), derive({all_vec}), new_unchecked"), "Vec<i64>", "vec![1i64]", Vis::PubSuper, true, &mut out, &mut n);
    add("/*generic*/sanitize(with = ulib::sort_dedup), validate(predicate = ulib::vec_nonempty), derive(Debug, Clone, PartialEq, Eq, PartialOrd, Ord, AsRef, Deref, TryFrom, Into, Hash, Borrow, IntoIterator, Serialize, Deserialize)".to_string(), "Vec<i64>", "vec![1i64, 2]", Vis::Pub, true, &mut out, &mut n);
    if tier == Tier::Thorough {
        add(format!("validate(less_or_equal = 200), derive({all_int})"), "u8", "5", Vis::Pub, true, &mut out, &mut n);
        add(format!("validate(with = ulib::check_int, error = NumErr), derive(Debug, Clone, Copy, PartialEq, Eq, PartialOrd, Ord, FromStr, AsRef, Deref, TryFrom, Into, Hash, Borrow, Display, Serialize, Deserialize)"), "i64", "5", Vis::Pub, true, &mut out, &mut n);
        add(format!("sanitize(with = ulib::abs_f), validate(finite), derive({}, Default), default = 1.5", all_float.replace(", Arbitrary", "")), "f32", "0.5", Vis::Pub, true, &mut out, &mut n);
        add(format!("sanitize(uppercase), derive(Debug, Clone, Deref, AsRef, Borrow, From, Into, Hash, PartialEq, Eq, Default), default = \"x\""), "String", "\"abc\".to_string()", Vis::Pub, false, &mut out, &mut n);
        add(format!("derive({all_vec}, Arbitrary)"), "Vec<i64>", "vec![1i64]", Vis::Pub, false, &mut out, &mut n);
        add("validate(regex = \"^[a-z]+$\"), derive(Debug, Deref, AsRef, Borrow, TryFrom, FromStr, Display)".to_string(), "String", "\"abc\".to_string()", Vis::PubCrate, true, &mut out, &mut n);
        add("validate(predicate = ulib::point_on_diag), derive(Debug, Clone, Copy, Deref, AsRef, Borrow, TryFrom, Into, FromStr, Display)".to_string(), "Point", "Point { x: 1, y: 1 }", Vis::Pub, true, &mut out, &mut n);
    }
    out
}

pub fn c05_cases(tier: Tier) -> Vec<Case> {
    let mut cases: Vec<Case> = vec![];
    for t in targets(tier) {
        let x = &t.name;
        let xt = &t.xt;
        let i = t.inner_ty;
        let val = t.val;
        let mk = &t.mk;
        // the declaration itself lives one level deeper so that `pub(super)` means "visible to the siblings"
        let decl_idx = cases.len();
        let mut dc = Case::new("control", "accept", "declaration", format!("pub mod inner {{\n    use super::*;\n    #[nutype({})]\n    {}\n}}\n", t.attr, t.item));
        dc.text = format!("#[nutype({})] {}", t.attr, t.item);
        dc.mx = Some((t.attr.clone(), t.item.clone()));
        cases.push(dc);
        let nameable_from_sibling = matches!(t.vis, Vis::Pub | Vis::PubCrate);
        let import = format!("use super::m{decl_idx}::inner::{x};");
        let mut sib = |kind: &'static str, expect: &'static str, class: &str, body: String, cases: &mut Vec<Case>| {
            let mut c = Case::new(kind, expect, class, format!("{import}\npub fn f() {{\n{body}\n}}\n"));
            c.text = format!("[{}] {}", t.attr, body.replace('\n', " "));
            c.belongs_to = Some(decl_idx);
            cases.push(c);
        };
        if !nameable_from_sibling {
            // a private newtype (and its error types) cannot even be named outside the declaring module
            sib("attack", "reject", "name-private-type", format!("let _ = core::mem::size_of::<{xt}>();"), &mut cases);
            let mut c = Case::new("attack", "reject", "name-private-error-type", format!("use super::m{decl_idx}::inner::{x}Error;\npub fn f() {{ let _ = core::mem::size_of::<{x}Error>(); }}\n"));
            c.text = format!("[{}] use {x}Error from a sibling module", t.attr);
            c.belongs_to = Some(decl_idx);
            cases.push(c);
            // ... while the declaring module can use it
            let mut c = Case::new("control", "accept", "private-type-in-declaring-module", format!("#[nutype({})]\n{}\npub fn f() {{ let t = {mk}; let _ = t.into_inner(); let _ = core::mem::size_of::<{x}Error>(); }}\n", t.attr, t.item));
            c.text = format!("[{}] used inside the declaring module", t.attr);
            cases.push(c);
            continue;
        }
        // controls: legitimate uses of the same shapes
        sib("control", "accept", "into_inner", format!("    let t = {mk};\n    let _: {i} = t.into_inner();"), &mut cases);
        sib("control", "accept", "swap-two-valid-values", format!("    let mut a = {mk};\n    let mut b = {mk};\n    core::mem::swap(&mut a, &mut b);"), &mut cases);
        if t.has_deref {
            sib("control", "accept", "deref-read", format!("    let t = {mk};\n    let r: &{i} = &*t;\n    let _ = r;"), &mut cases);
            sib("control", "accept", "as_ref-read", format!("    let t = {mk};\n    let r: &{} = t.as_ref();\n    let _ = r;", if t.is_string { "str" } else { i }), &mut cases);
        }
        if t.is_vec {
            sib("control", "accept", "iterate-shared", format!("    let t = {mk};\n    for x in &t {{ let _ = x; }}\n    let _ = t.len();\n    let _ = t.first();"), &mut cases);
        }
        if t.has_default {
            sib("control", "accept", "default-with-default", format!("    let _ = {x}::default();"), &mut cases);
        } else {
            sib("attack", "reject", "default-without-default", format!("    let _ = <{xt} as Default>::default();"), &mut cases);
        }
        if t.new_unchecked {
            sib("control", "accept", "new_unchecked-in-unsafe", format!("    let _ = unsafe {{ {x}::new_unchecked({val}) }};"), &mut cases);
            sib("attack", "reject", "new_unchecked-without-unsafe", format!("    let _ = {x}::new_unchecked({val});"), &mut cases);
        } else {
            sib("attack", "reject", "new_unchecked-without-flag", format!("    let _ = unsafe {{ {x}::new_unchecked({val}) }};"), &mut cases);
        }
        // attacks
        let attacks: Vec<(&str, String)> = vec![
            ("tuple-constructor", format!("    let _ = {x}({val});")),
            ("struct-literal", format!("    let _ = {x} {{ 0: {val} }};")),
            ("functional-update", format!("    let t = {mk};\n    let _ = {x} {{ ..t }};")),
            ("field-read", format!("    let t = {mk};\n    let _ = &t.0;")),
            ("field-write", format!("    let mut t = {mk};\n    t.0 = {val};")),
            ("destructure-let", format!("    let {x}(x) = {mk};\n    let _ = x;")),
            ("destructure-ref-mut", format!("    let mut t = {mk};\n    match t {{ {x}(ref mut x) => {{ *x = {val}; }} }}")),
            ("destructure-param", format!("    fn g({x}(x): {xt}) -> {i} {{ x }}\n    let _ = g({mk});")),
            ("pattern-wildcard", format!("    let t = {mk};\n    if let {x}(_) = t {{}}")),
            ("deref-assign", format!("    let mut t = {mk};\n    *t = {val};")),
            ("deref_mut", format!("    use core::ops::DerefMut;\n    let mut t = {mk};\n    let r: &mut {i} = t.deref_mut();\n    *r = {val};")),
            ("as_mut", format!("    let mut t = {mk};\n    let r: &mut {i} = t.as_mut();\n    *r = {val};")),
            ("borrow_mut", format!("    use core::borrow::BorrowMut;\n    let mut t = {mk};\n    let r: &mut {i} = t.borrow_mut();\n    *r = {val};")),
            ("mem-take-through-deref", format!("    let mut t = {mk};\n    let _ = core::mem::replace(&mut *t, {val});")),
            ("private-module-path", format!("    let _ = super::m{decl_idx}::inner::__nutype_{x}__::{x}({val});")),
            ("private-module-name", format!("    use super::m{decl_idx}::inner::__nutype_{x}__ as secret;\n    let _ = core::mem::size_of::<secret::{xt}>();")),
            ("inherent-impl-constructor", format!("    trait Evil {{ fn evil() -> Self; }}\n    impl Evil for {xt} {{ fn evil() -> Self {{ {x}({val}) }} }}\n    let _ = <{xt} as Evil>::evil();")),
            ("sanitize-is-private", format!("    let _ = {x}::__sanitize__({val});")),
        ];
        for (class, body) in attacks {
            sib("attack", "reject", class, body, &mut cases);
        }
        if t.has_validation {
            sib("attack", "reject", "from-inner-with-validation", format!("    let _: {xt} = {x}::from({val});"), &mut cases);
            sib("attack", "reject", "into-newtype-with-validation", format!("    let v: {i} = {val};\n    let _: {xt} = v.into();"), &mut cases);
            sib("attack", "reject", "new-with-validation", format!("    let _ = {x}::new({val});"), &mut cases);
        }
        if t.is_vec {
            for (class, body) in [
                ("vec-push-through-deref", format!("    let mut t = {mk};\n    t.push(7);")),
                ("vec-clear-through-deref", format!("    let mut t = {mk};\n    t.clear();")),
                ("vec-get_mut", format!("    let mut t = {mk};\n    if let Some(x) = t.get_mut(0) {{ *x = 7; }}")),
                ("vec-index-assign", format!("    let mut t = {mk};\n    t[0] = 7;")),
                ("vec-iter_mut", format!("    let mut t = {mk};\n    for x in t.iter_mut() {{ *x = 7; }}")),
                ("vec-for-in-mut", format!("    let mut t = {mk};\n    for x in &mut t {{ *x = 7; }}")),
                ("vec-as_mut_slice", format!("    let mut t = {mk};\n    t.as_mut_slice()[0] = 7;")),
                ("vec-sort-through-deref", format!("    let mut t = {mk};\n    t.sort();")),
                ("vec-into-iter-mut", format!("    let mut t = {mk};\n    let _ = core::iter::IntoIterator::into_iter(&mut t);")),
            ] {
                sib("attack", "reject", class, body, &mut cases);
            }
        }
        if t.is_string {
            for (class, body) in [
                ("string-push-through-deref", format!("    let mut t = {mk};\n    t.push('x');")),
                ("string-clear-through-deref", format!("    let mut t = {mk};\n    t.clear();")),
                ("string-make_ascii_uppercase", format!("    let mut t = {mk};\n    t.make_ascii_uppercase();")),
                ("string-as_mut_str", format!("    let mut t = {mk};\n    let _ = t.as_mut_str();")),
                ("string-truncate", format!("    let mut t = {mk};\n    t.truncate(0);")),
            ] {
                sib("attack", "reject", class, body, &mut cases);
            }
        }
        // from inside the declaring module: the tuple constructor is still out of reach
        {
            let mut c = Case::new("attack", "reject", "tuple-constructor-in-declaring-module", format!("#[nutype({})]\n{}\npub fn f() {{ let _ = {x}({val}); }}\n", t.attr, t.item));
            c.text = format!("[{}] {x}(..) inside the declaring module", t.attr);
            cases.push(c);
            let mut c = Case::new("attack", "reject", "private-module-constructor-in-declaring-module", format!("#[nutype({})]\n{}\npub fn f() {{ let _ = __nutype_{x}__::{x}({val}); }}\n", t.attr, t.item));
            c.text = format!("[{}] __nutype_{x}__::{x}(..) inside the declaring module", t.attr);
            cases.push(c);
            let mut c = Case::new("attack", "reject", "field-write-in-declaring-module", format!("#[nutype({})]\n{}\npub fn f() {{ let mut t = {mk}; t.0 = {val}; }}\n", t.attr, t.item));
            c.text = format!("[{}] t.0 = .. inside the declaring module", t.attr);
            cases.push(c);
            let mut c = Case::new("control", "accept", "declaring-module-uses-constructor", format!("#[nutype({})]\n{}\npub fn f() {{ let t = {mk}; let _ = t.into_inner(); }}\n", t.attr, t.item));
            c.text = format!("[{}] guarded constructor inside the declaring module", t.attr);
            cases.push(c);
        }
    }
    cases
}

/// C05 with the `new_unchecked` crate feature OFF: the flag must be refused
pub fn c05_nofeature_cases() -> Vec<Case> {
    let mut cases = vec![];
    for (ty, val) in [("i32", "5"), ("f64", "0.5"), ("String", "\"a\".to_string()"), ("Vec<i64>", "vec![1]")] {
        let n = cases.len();
        let mut c = raw_case("attack", "reject", "new_unchecked-flag-without-feature", "derive(Debug), new_unchecked", &format!("pub struct Nf{n}({ty});"), "");
        c.text = format!("#[nutype(derive(Debug), new_unchecked)] pub struct Nf{n}({ty}); // crate feature new_unchecked OFF");
        cases.push(c);
        let n = cases.len();
        let mut c = Case::new("attack", "reject", "new_unchecked-call-without-feature", format!("#[nutype(derive(Debug))]\npub struct Nf{n}({ty});\npub fn f() {{ let _ = unsafe {{ Nf{n}::new_unchecked({val}) }}; }}\n"));
        c.text = format!("Nf{n}::new_unchecked without flag and feature");
        cases.push(c);
        let n = cases.len();
        let mut c = raw_case("control", "accept", "plain-declaration-without-features", "derive(Debug, Clone)", &format!("pub struct Nf{n}({ty});"), "");
        c.text = format!("#[nutype(derive(Debug, Clone))] pub struct Nf{n}({ty});");
        cases.push(c);
        // feature-gated derives / validators must be refused too (C08)
        for (class, attr) in [("gated-trait-without-feature", "derive(Serialize)"), ("gated-trait-without-feature", "derive(Deserialize)"), ("gated-trait-without-feature", "derive(Arbitrary)"), ("gated-trait-without-feature", "derive(JsonSchema)")] {
            let n = cases.len();
            let mut c = raw_case("decl", "reject", class, attr, &format!("pub struct Nf{n}({ty});"), "");
            c.text = format!("#[nutype({attr})] pub struct Nf{n}({ty}); // features OFF");
            cases.push(c);
        }
    }
    let n = cases.len();
    let mut c = raw_case("decl", "reject", "gated-validator-without-feature", "validate(regex = \"^a$\")", &format!("pub struct Nf{n}(String);"), "");
    c.text = "#[nutype(validate(regex = \"^a$\"))] // feature regex OFF".into();
    cases.push(c);
    cases
}

// ------------------------------------------------------------------------------------------------
// C15: no_std

pub fn c15_cases(tier: Tier) -> Vec<Case> {
    let mut cases = vec![];
    let mut n = 0usize;
    // helper items available in both the no_std and the std twin
    let helpers = C15_HELPERS;
    let families: Vec<(&str, Vec<&str>, Vec<&str>)> = vec![
        // (type, guards, traits)
        ("i32", vec!["", "validate(greater = 1), ", "validate(less_or_equal = 100), ", "validate(greater = 1, less = 100), ", "sanitize(with = clamp_i), validate(predicate = even), ", "validate(with = check_i, error = MyErr), ", "sanitize(with = c_clamp_i), validate(greater_or_equal = 10, predicate = c_even), const_fn, "], vec!["Debug", "Clone", "Copy", "PartialEq", "Eq", "PartialOrd", "Ord", "FromStr", "AsRef", "Deref", "TryFrom", "Into", "Hash", "Borrow", "Display", "Default", "Serialize", "Deserialize", "Arbitrary"]),
        ("u64", vec!["validate(less_or_equal = 7), "], vec!["Debug", "FromStr", "TryFrom", "Display", "Serialize", "Deserialize", "Arbitrary", "Hash"]),
        ("f64", vec!["", "validate(greater_or_equal = 0.0), ", "validate(less = 100.0), ", "validate(greater = -1.0, less_or_equal = 1.0), ", "validate(finite, greater_or_equal = 0.0, less = 1.0), ", "validate(finite, greater = 0.0), ", "sanitize(with = abs_f), validate(predicate = small), ", "validate(with = check_f, error = MyErr), "], vec!["Debug", "Clone", "Copy", "PartialEq", "Eq", "PartialOrd", "Ord", "FromStr", "AsRef", "Deref", "TryFrom", "Into", "Borrow", "Display", "Default", "Serialize", "Deserialize", "Arbitrary"]),
        ("f32", vec!["validate(finite), ", "validate(less_or_equal = 1.0), ", "validate(greater = 0.0), "], vec!["Debug", "PartialEq", "Eq", "PartialOrd", "Ord", "FromStr", "Display", "Arbitrary", "Serialize", "Deserialize"]),
        ("Pt", vec!["", "validate(predicate = on_diag), "], vec!["Debug", "Clone", "Copy", "PartialEq", "Eq", "PartialOrd", "Ord", "FromStr", "AsRef", "Deref", "TryFrom", "Into", "Hash", "Borrow", "Display", "Default"]),
        ("[u8; 4]", vec!["", "validate(predicate = |a| a[0] == 0), "], vec!["Debug", "Clone", "Copy", "PartialEq", "Eq", "AsRef", "Deref", "TryFrom", "Into", "Hash", "Borrow", "Default", "IntoIterator", "Serialize", "Deserialize", "Arbitrary"]),
    ];
    for (ty, guards, traits) in families {
        for g in guards {
            let hv = g.contains("validate");
            let custom = g.contains("with = check");
            let pred = g.contains("predicate");
            let finite = g.contains("finite");
            let is_float = ty.starts_with('f');
            let mut sets: Vec<Vec<&str>> = vec![];
            for t in &traits {
                sets.push(vec![*t]);
            }
            for t in &traits {
                for u in ["FromStr", "Serialize", "Deserialize", "Arbitrary", "Display", "TryFrom"] {
                    if *t != u && traits.contains(&u) {
                        sets.push(vec![*t, u]);
                    }
                }
            }
            sets.push(traits.clone());
            for (si, set) in sets.into_iter().enumerate() {
                if tier == Tier::Quick && si % 3 != 0 && set.len() == 2 {
                    continue;
                }
                let mut set: Vec<&str> = set;
                // keep the set admissible: prerequisites and macro rules
                let need = |set: &mut Vec<&'static str>, a: &'static str| {
                    if !set.contains(&a) {
                        set.push(a);
                    }
                };
                let mut s2: Vec<&'static str> = set.iter().map(|x| *traits.iter().find(|t| *t == x).unwrap()).collect();
                if is_float && !finite {
                    s2.retain(|t| *t != "Eq" && *t != "Ord");
                }
                if hv && (custom || pred || (is_float && g.contains("sanitize")) || !matches!(ty, "i32" | "u64" | "f64" | "f32")) {
                    s2.retain(|t| *t != "Arbitrary");
                }
                if hv && ty == "i32" && g.contains("sanitize") {
                    s2.retain(|t| *t != "Arbitrary");
                }
                if s2.contains(&"Ord") {
                    need(&mut s2, "PartialOrd");
                    need(&mut s2, "Eq");
                }
                if s2.contains(&"PartialOrd") || s2.contains(&"Eq") {
                    need(&mut s2, "PartialEq");
                }
                if s2.contains(&"Copy") {
                    need(&mut s2, "Clone");
                }
                if s2.contains(&"Eq") && is_float && !finite {
                    continue;
                }
                if s2.is_empty() {
                    continue;
                }
                set = s2;
                n += 1;
                let name = format!("Ns{n}");
                let def = if set.contains(&"Default") {
                    match ty {
                        "i32" => ", default = 50",
                        "f64" => ", default = 0.5",
                        "Pt" => ", default = Pt { x: 1, y: 1 }",
                        _ => ", default = [0, 0, 0, 0]",
                    }
                } else {
                    ""
                };
                let from_fix = set.join(", ");
                let attr = format!("{g}derive({from_fix}){def}");
                let mut c = raw_case("decl", "accept", &format!("nostd:{}:{}", ty, if g.is_empty() { "noguard" } else { "guard" }), &attr, &format!("pub struct {name}({ty});"), "use super::helpers::*;");
                c.text = format!("#[nutype({attr})] pub struct {name}({ty});");
                c.nostd = true;
                cases.push(c);
            }
        }
    }
    // generics / lifetimes
    for (attr, item) in [
        ("derive(Debug, Clone, PartialEq, AsRef, Deref, Borrow)", "pub struct NAME<T>(T);"),
        ("derive(Debug, Clone, Into, TryFrom, Hash, PartialEq, Eq)", "pub struct NAME<T: Ord + 'static>(&'static [T]);"),
        ("derive(Debug, Display, FromStr)", "pub struct NAME<T>(T);"),
        ("derive(Debug, Serialize, Deserialize)", "pub struct NAME<T>(T);"),
        ("derive(Debug, Default), default = T::default()", "pub struct NAME<T: Default>(T);"),
        ("validate(predicate = |v| !v.is_empty()), derive(Debug, AsRef, Deref, TryFrom)", "pub struct NAME<'a>(&'a [u8]);"),
        ("derive(Debug, TryFrom, From)", "pub struct NAME<T>(T);"),
        // the per-type `new_unchecked` flag (with and without validation, const_fn)
        ("validate(greater = 1), derive(Debug), new_unchecked", "pub struct NAME(u8);"),
        ("validate(finite, less = 9.0), derive(Debug, PartialEq), new_unchecked", "pub struct NAME(f64);"),
        ("sanitize(with = clamp_i), derive(Debug), new_unchecked", "pub struct NAME(i32);"),
        ("validate(greater_or_equal = 10), const_fn, new_unchecked, derive(Debug)", "pub struct NAME(i32);"),
        ("validate(predicate = on_diag), derive(Debug), new_unchecked", "pub struct NAME(Pt);"),
    ] {
        n += 1;
        let name = format!("Ns{n}");
        let expect = if attr.contains("TryFrom, From") { "reject" } else { "accept" };
        let mut c = raw_case("decl", expect, "nostd:generic", attr, &item.replace("NAME", &name), "use super::helpers::*;");
        c.text = format!("#[nutype({attr})] {}", item.replace("NAME", &name));
        c.nostd = true;
        cases.push(c);
    }
    let _ = helpers;
    cases
}

/// helper items (user functions, a user struct, a user error type) available in every C15 crate
pub fn c15_header() -> String {
    format!("pub mod helpers {{\n{}}}\n", C15_HELPERS)
}

pub const C15_HELPERS: &str = "pub fn clamp_i(v: i32) -> i32 { if v < 10 { 10 } else if v > 100 { 100 } else { v } }\npub const fn c_clamp_i(v: i32) -> i32 { if v < 10 { 10 } else if v > 100 { 100 } else { v } }\npub fn even(v: &i32) -> bool { *v % 2 == 0 }\npub const fn c_even(v: &i32) -> bool { *v % 2 == 0 }\npub fn abs_f(v: f64) -> f64 { if v < 0.0 { -v } else { v } }\npub fn small(v: &f64) -> bool { *v < 1000.0 }\n#[derive(Debug, Clone, PartialEq)]\npub enum MyErr { Bad }\nimpl core::fmt::Display for MyErr { fn fmt(&self, f: &mut core::fmt::Formatter<'_>) -> core::fmt::Result { write!(f, \"bad\") } }\npub fn check_i(v: &i32) -> Result<(), MyErr> { if *v < 0 { Err(MyErr::Bad) } else { Ok(()) } }\npub fn check_f(v: &f64) -> Result<(), MyErr> { if *v < 0.0 { Err(MyErr::Bad) } else { Ok(()) } }\n#[derive(Debug, Clone, Copy, PartialEq, Eq, PartialOrd, Ord, Hash, Default)]\npub struct Pt { pub x: i32, pub y: i32 }\nimpl core::fmt::Display for Pt { fn fmt(&self, f: &mut core::fmt::Formatter<'_>) -> core::fmt::Result { write!(f, \"{},{}\", self.x, self.y) } }\nimpl core::str::FromStr for Pt { type Err = MyErr; fn from_str(_s: &str) -> Result<Self, MyErr> { Err(MyErr::Bad) } }\npub fn on_diag(p: &Pt) -> bool { p.x == p.y }\n";

// ------------------------------------------------------------------------------------------------
// C09 (compile-or-behave part): combinations for which the macro cannot know the valid set (custom `with`
// sanitizer next to validators, predicates, custom validation). Refusing them is fine; if one is accepted its
// generated `arbitrary()` must still be total and produce only valid values on the probe inputs.

pub fn c09x_cases(_tier: Tier) -> Vec<Case> {
    let mut cases = vec![];
    let inputs: Vec<Vec<u8>> = {
        let mut v: Vec<Vec<u8>> = vec![vec![]];
        for b in 0..=255u8 {
            v.push(vec![b]);
        }
        for len in [2usize, 4, 8, 16] {
            v.push(vec![0x00; len]);
            v.push(vec![0xff; len]);
            v.push((0..len).map(|i| (i * 37 + 1) as u8).collect());
        }
        v
    };
    let decls: Vec<(&str, &str)> = vec![
        ("sanitize(with = ulib::to_even), validate(greater = 0), derive(Debug, Arbitrary)", "u8"),
        ("sanitize(with = ulib::to_even), validate(greater = 0, less = 3), derive(Debug, Arbitrary)", "i32"),
        ("sanitize(with = ulib::wrap_add1), validate(less_or_equal = 5), derive(Debug, Arbitrary)", "u16"),
        ("sanitize(with = ulib::clamp_10_100), validate(less = 10), derive(Debug, Arbitrary)", "i64"),
        ("sanitize(with = |v: u8| v / 2), validate(greater_or_equal = 100), derive(Debug, Arbitrary)", "u8"),
        ("sanitize(with = ulib::abs_f), validate(less = 0.0), derive(Debug, Arbitrary)", "f64"),
        ("sanitize(with = ulib::clamp_0_1), validate(greater = 1.0, finite), derive(Debug, Arbitrary)", "f32"),
        ("sanitize(with = ulib::strip_x), validate(not_empty), derive(Debug, Arbitrary)", "String"),
        ("sanitize(with = ulib::truncate3), validate(len_char_min = 5), derive(Debug, Arbitrary)", "String"),
        ("validate(predicate = ulib::is_even), derive(Debug, Arbitrary)", "u8"),
        ("validate(predicate = ulib::is_integral), derive(Debug, Arbitrary)", "f64"),
        ("validate(predicate = ulib::no_x), derive(Debug, Arbitrary)", "String"),
        ("validate(regex = \"^[0-9]+$\"), derive(Debug, Arbitrary)", "String"),
        ("validate(with = ulib::check_int, error = NumErr), derive(Debug, Arbitrary)", "i32"),
        ("validate(with = ulib::check_float, error = NumErr), derive(Debug, Arbitrary)", "f64"),
        ("validate(with = ulib::check_str, error = StrErr), derive(Debug, Arbitrary)", "String"),
        ("validate(predicate = ulib::vec_nonempty), derive(Debug, Arbitrary)", "Vec<i64>"),
        // controls: combinations the generators do support
        ("validate(greater = 0, less = 3), derive(Debug, Arbitrary)", "i32"),
        ("sanitize(trim, lowercase), validate(not_empty, len_char_max = 4), derive(Debug, Arbitrary)", "String"),
        ("sanitize(with = ulib::to_even), derive(Debug, Arbitrary)", "u8"),
    ];
    for (k, (attr, ty)) in decls.iter().enumerate() {
        let name = format!("Ax{k}");
        let control = k >= decls.len() - 3;
        let mut c = raw_case(if control { "control" } else { "decl" }, if control { "accept" } else { "either" }, "arbitrary-with-unknowable-valid-set", attr, &format!("pub struct {name}({ty});"), "");
        c.text = format!("#[nutype({attr})] pub struct {name}({ty});");
        let has_validation = attr.contains("validate(");
        for b in &inputs {
            let bytes: Vec<String> = b.iter().map(|x| format!("{x}u8")).collect();
            let check = if has_validation { format!("match {name}::try_new(v) {{ Ok(_) => \"ok\".to_string(), Err(e) => format!(\"INVALID {{:?}}\", e) }}") } else { "{ let _ = v; \"ok\".to_string() }".to_string() };
            let code = format!(
                "{{ let data: &[u8] = &[{}]; let r = std::panic::catch_unwind(|| {{ let mut u = arbitrary::Unstructured::new(data); <{name} as arbitrary::Arbitrary>::arbitrary(&mut u).map(|t| t.into_inner()) }}); match r {{ Ok(Ok(v)) => {check}, Ok(Err(_)) => \"ok\".to_string(), Err(_) => \"PANIC\".to_string() }} }}",
                bytes.join(", ")
            );
            let shown: Vec<String> = b.iter().map(|x| format!("{x:02x}")).collect();
            c.probes.push((code, format!("[{}] => ok", shown.join(" "))));
        }
        cases.push(c);
    }
    cases
}

/// C14, compile-or-behave part: integer declarations whose valid range the macro cannot know from the bounds alone
/// (a custom sanitizer next to them). Refused at compile time -> fine. Accepted -> the generator must still reach
/// every value the constructor can produce: all byte strings of length 0, 1 and 2 are fed, the produced set is
/// compared with `{ try_new(raw) : raw in the whole inner type }` (8/16-bit types only).
pub fn c14x_cases(_tier: Tier) -> Vec<Case> {
    let mut cases = vec![];
    let decls: Vec<(&str, &str, bool)> = vec![
        ("sanitize(with = |v: u8| v / 2), validate(greater_or_equal = 10, less_or_equal = 20), derive(Debug, Arbitrary)", "u8", false),
        ("sanitize(with = ulib::to_even), validate(greater = 0, less = 30), derive(Debug, Arbitrary)", "u8", false),
        ("sanitize(with = |v: i8| v.wrapping_neg()), validate(greater_or_equal = 1, less_or_equal = 5), derive(Debug, Arbitrary)", "i8", false),
        ("sanitize(with = ulib::clamp_10_100), validate(less = 50), derive(Debug, Arbitrary)", "u16", false),
        ("sanitize(with = ulib::wrap_add1), validate(greater = 250), derive(Debug, Arbitrary)", "u8", false),
        // controls the generator supports: bounds only, sanitizer only, one-sided negative bound
        ("validate(greater = 3, less_or_equal = 40), derive(Debug, Arbitrary)", "u8", true),
        ("sanitize(with = ulib::to_even), derive(Debug, Arbitrary)", "u8", true),
        ("validate(less = -100), derive(Debug, Arbitrary)", "i8", true),
        ("validate(greater_or_equal = 65000), derive(Debug, Arbitrary)", "u16", true),
    ];
    for (k, (attr, ty, control)) in decls.iter().enumerate() {
        let name = format!("Cx{k}");
        let mut c = raw_case(if *control { "control" } else { "decl" }, if *control { "accept" } else { "either" }, "arbitrary-completeness-with-unknowable-range", attr, &format!("pub struct {name}({ty});"), "");
        c.text = format!("#[nutype({attr})] pub struct {name}({ty});");
        let ctor = if attr.contains("validate(") { format!("{name}::try_new(raw).ok()") } else { format!("Some({name}::new(raw))") };
        let code = format!(
            "{{ std::panic::set_hook(Box::new(|_| {{}})); let mut produced = std::collections::BTreeSet::new(); let mut panics = 0u32; {{ let mut feed = |data: &[u8]| {{ match std::panic::catch_unwind(|| {{ let mut u = arbitrary::Unstructured::new(data); <{name} as arbitrary::Arbitrary>::arbitrary(&mut u).map(|t| t.into_inner()) }}) {{ Ok(Ok(v)) => {{ produced.insert(v); }} Ok(Err(_)) => {{}} Err(_) => panics += 1 }} }}; feed(&[]); for a in 0..=255u8 {{ feed(&[a]); for b in 0..=255u8 {{ feed(&[a, b]); }} }} }} let _ = std::panic::take_hook(); let mut missing: Vec<{ty}> = vec![]; for raw in <{ty}>::MIN..=<{ty}>::MAX {{ if let Some(t) = {ctor} {{ let v = t.into_inner(); if !produced.contains(&v) {{ missing.push(v); }} }} }} missing.sort(); missing.dedup(); if missing.is_empty() {{ \"complete\".to_string() }} else {{ format!(\"INCOMPLETE: {{}} obtainable value(s) never produced, e.g. {{:?}} (panics: {{}})\", missing.len(), &missing[..missing.len().min(6)], panics) }} }}"
        );
        c.probes.push((code, "all inputs of length 0..=2 => complete".to_string()));
        cases.push(c);
    }
    cases
}

/// C03, compile-or-behave part: `derive(Default)` WITHOUT a `default = ..` attribute. Refused at compile time
/// (today's behaviour) -> fine. Accepted -> `Default::default()` is one more entry point and must agree with the
/// constructor applied to whatever value it starts from; the only candidate is the inner type's own default:
/// `default()` must equal `try_new(Inner::default())`, panicking exactly when that is an `Err`.
pub fn c03x_cases(_tier: Tier) -> Vec<Case> {
    let mut cases = vec![];
    let decls: Vec<(&str, &str, &str)> = vec![
        ("validate(predicate = ulib::vec_nonempty), derive(Debug, Default)", "Vec<i64>", ""),
        ("sanitize(with = |mut v: Vec<i64>| { v.push(1); v }), derive(Debug, Default)", "Vec<i64>", ""),
        ("validate(greater = 0), derive(Debug, Default)", "u8", ""),
        ("sanitize(with = ulib::clamp_10_100), derive(Debug, Default)", "i32", ""),
        ("validate(greater = 0.0), derive(Debug, Default)", "f64", ""),
        ("sanitize(with = ulib::or_anon), derive(Debug, Default)", "String", ""),
        ("validate(not_empty), derive(Debug, Default)", "String", ""),
        ("validate(predicate = |p| *p > 1024), derive(Debug, Default)", "Port", "pub type Port = u16;"),
        ("validate(predicate = ulib::point_on_diag), sanitize(with = |p: Point| Point { x: p.x + 1, y: p.y }), derive(Debug, Default)", "Point", ""),
        ("derive(Debug, Default)", "i64", ""),
    ];
    for (k, (attr, ty, extra)) in decls.iter().enumerate() {
        let name = format!("Dx{k}");
        let mut c = raw_case("decl", "either", "default-without-default-attribute", attr, &format!("pub struct {name}({ty});"), extra);
        c.text = format!("{extra} #[nutype({attr})] pub struct {name}({ty});");
        let ctor = if attr.contains("validate(") { format!("{name}::try_new(<{ty} as Default>::default()).ok().map(|t| t.into_inner())") } else { format!("Some({name}::new(<{ty} as Default>::default()).into_inner())") };
        let code = format!(
            "{{ std::panic::set_hook(Box::new(|_| {{}})); let d = std::panic::catch_unwind(|| <{name} as Default>::default().into_inner()).ok(); let _ = std::panic::take_hook(); let c = {ctor}; if d == c {{ \"consistent\".to_string() }} else {{ format!(\"INCONSISTENT: default() = {{:?}} (None = panic), constructor on the inner default = {{:?}} (None = Err)\", d, c) }} }}"
        );
        c.probes.push((code, "Default::default() vs constructor => consistent".to_string()));
        cases.push(c);
    }
    // a sequence: one generic declaration, two instantiations whose defaults differ in validity. Whatever the
    // first call did (caches, statics inside a generic fn are shared by all instantiations) the second must still be
    // what the constructor says
    {
        let extra = "pub trait Unit { fn unit() -> Self; }\nimpl Unit for i32 { fn unit() -> Self { 1 } }\nimpl Unit for i64 { fn unit() -> Self { -1 } }";
        let attr = "validate(predicate = |v| *v > T::default()), derive(Debug, Default), default = T::unit()";
        let mut c = raw_case("decl", "either", "default-of-generic-instantiations-in-sequence", attr, "pub struct DxGen<T: Unit + Default + PartialOrd>(T);", extra);
        c.text = format!("{extra} #[nutype({attr})] pub struct DxGen<T: Unit + Default + PartialOrd>(T);");
        let code = "{ std::panic::set_hook(Box::new(|_| {})); let a = std::panic::catch_unwind(|| DxGen::<i32>::default().into_inner()).ok(); let b = std::panic::catch_unwind(|| DxGen::<i64>::default().into_inner()).ok(); let a2 = std::panic::catch_unwind(|| DxGen::<i32>::default().into_inner()).ok(); let _ = std::panic::take_hook(); format!(\"{:?} {:?} {:?}\", a, b, a2) }".to_string();
        c.probes.push((code, "default::<i32>(), default::<i64>(), default::<i32>() => Some(1) None Some(1)".to_string()));
        cases.push(c);
    }
    // control: the catalogue crate itself must build
    let mut c = raw_case("control", "accept", "default-with-attribute", "validate(greater = 0), derive(Debug, Default), default = 5", "pub struct DxCtl(u8);", "");
    c.text = "#[nutype(validate(greater = 0), derive(Debug, Default), default = 5)] pub struct DxCtl(u8);".to_string();
    c.probes.push(("format!(\"{:?}\", DxCtl::default().into_inner())".to_string(), "default => 5".to_string()));
    cases.push(c);
    cases
}
