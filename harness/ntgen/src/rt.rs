//! Generator for the runtime-explorer subject crates: the declaration exactly as a user would
//! write it, plus type-erased glue implementing `ntdrv::subject::Subject`.

use ntcore::domain::{self, Tier};
use ntcore::grammar::{rt_subjects, Subj};
use ntcore::model::*;
use ntcore::refsem;
use ntcore::render::{self, value_expr, DECL_PRELUDE};
use std::fmt::Write as _;
use std::path::Path;

fn plain_struct(d: &Decl) -> String {
    let mut derives = vec![];
    if d.derives(Tr::Serialize) {
        derives.push("serde::Serialize");
    }
    if d.derives(Tr::Deserialize) {
        derives.push("serde::Deserialize");
    }
    let der = if derives.is_empty() { String::new() } else { format!("#[derive({})]\n", derives.join(", ")) };
    let g = match d.inner {
        Inner::GenVec | Inner::GenT => "<T>",
        Inner::Cow => "<'a>",
        _ => "",
    };
    format!("{der}pub struct {}{g}(pub {});", d.name, d.inner.ty_src())
}

fn err_arms(d: &Decl) -> String {
    // exhaustive match WITHOUT wildcard over exactly the variants REF derives from the declaration
    let en = d.error_name();
    let mut s = String::new();
    for v in d.std_validators() {
        let _ = writeln!(s, "            {en}::{} => \"{}\",", v.variant(), v.variant());
    }
    s
}

/// inputs for the compile-time (`const`) table: neighbourhood of every bound + a few fixed values
fn const_inputs(d: &Decl) -> Vec<Val> {
    let mut out = vec![];
    match d.inner {
        Inner::Int(t) => {
            let mut cs: Vec<i128> = vec![0, 5, 10, 11, 12, 13, 14, 50, 88, 89, 90, 91, 100, 101, 200];
            for b in domain::decl_bounds(d) {
                if let Val::I(x) = b {
                    cs.push(x);
                }
                if let Val::U(x) = b {
                    cs.push(x as i128);
                }
            }
            for c in cs {
                for k in -1..=1 {
                    if let Some(v) = t.val(c + k) {
                        out.push(v);
                    }
                }
            }
        }
        Inner::F64 => {
            for x in [0.0f64, -0.0, 0.25, 0.2500000000000001, 0.24, 0.5, 1.0, 1.5, -3.0, f64::INFINITY, f64::NEG_INFINITY, f64::NAN, f64::MAX, f64::MIN_POSITIVE] {
                out.push(Val::f64(x));
            }
        }
        Inner::Point => {
            for (x, y) in [(0, 0), (1, 2), (3, 3), (-1, -1), (i32::MAX, i32::MAX), (i32::MIN, 0)] {
                out.push(Val::P(x, y));
            }
        }
        _ => {}
    }
    out.sort();
    out.dedup();
    out
}

pub fn subject_module(i: usize, s: &Subj) -> String {
    let d = &s.decl;
    let src = render::render(d).unwrap_or_else(|| panic!("subject {i} cannot be rendered: {d:?}"));
    let name = &d.name;
    let gu = d.inner.generics_use();
    let ity = d.inner.ty_concrete();
    let hv = d.has_validation();
    let custom = matches!(d.validation, Validation::Custom(..));
    let fam = d.family();
    let en = d.error_name();
    let mut m = String::new();
    let _ = writeln!(m, "pub mod s{i} {{");
    let _ = writeln!(m, "    #![allow(unused, non_snake_case, non_camel_case_types, clippy::all)]");
    let _ = writeln!(m, "    pub mod d {{\n        #![allow(unused, non_snake_case, clippy::all)]\n        {}", DECL_PRELUDE.replace('\n', "\n        "));
    for it in &src.items {
        let _ = writeln!(m, "        {it}");
    }
    let _ = writeln!(m, "        #[nutype({})]\n        {}\n    }}", src.attr, src.item);
    let _ = writeln!(m, "    pub mod plain {{\n        #![allow(unused)]\n        use ulib::*; use std::borrow::Cow;\n        {}\n    }}", plain_struct(d).replace('\n', "\n        "));
    let _ = writeln!(m, "    use ntdrv::subject::*; use ntdrv::serde_h::*; use ntdrv::glue::*; use ntcore::model::Val; use ulib::*; use std::borrow::Cow;");
    let _ = writeln!(m, "    use d::*;");
    let _ = writeln!(m, "    type T = d::{name}{gu};\n    type I = {ity};\n    type P = plain::{name}{gu};");
    // error naming
    if hv {
        if custom {
            let _ = writeln!(m, "    fn ename(_e: &{en}) -> &'static str {{ \"Custom\" }}");
        } else {
            let _ = writeln!(m, "    fn ename(e: &{en}) -> &'static str {{\n        match e {{\n{}        }}\n    }}", err_arms(d));
        }
        let _ = writeln!(m, "    fn mk(v: &Val) -> Option<T> {{ T::try_new(I::from_val(v)).ok() }}");
    } else {
        let _ = writeln!(m, "    fn mk(v: &Val) -> Option<T> {{ Some(T::new(I::from_val(v))) }}");
    }
    let _ = writeln!(m, "    fn inn(t: T) -> Val {{ let i: I = t.into_inner(); i.to_val() }}");
    if d.derives(Tr::Display) && d.derives(Tr::Clone) {
        let _ = writeln!(m, "    fn inn_of(t: &T) -> I {{ t.clone().into_inner() }}");
    }
    // const table
    let mut const_items = String::new();
    let mut const_rows = String::new();
    if d.const_fn {
        for (k, v) in const_inputs(d).iter().enumerate() {
            let lit = value_expr(v, d.inner.ty_src());
            let vv = val_src(v);
            if hv {
                let _ = writeln!(const_items, "    const C{k}: ::core::result::Result<T, {en}> = T::try_new({lit});");
                let _ = writeln!(const_rows, "                ({vv}, h_result(C{k}, |t: T| t.into_inner(), ename)),");
            } else {
                let _ = writeln!(const_items, "    const C{k}: T = T::new({lit});");
                let _ = writeln!(const_rows, "                ({vv}, Outcome::Ok(inn(C{k}))),");
            }
        }
    }
    m.push_str(&const_items);
    let _ = writeln!(m, "    pub struct G;\n    impl Subject for G {{");
    let _ = writeln!(m, "        fn idx(&self) -> usize {{ {i} }}\n        fn type_name(&self) -> &'static str {{ \"{name}\" }}");
    if hv {
        let _ = writeln!(m, "        fn construct(&self, raw: &Val) -> Outcome {{ guard(|| h_result(T::try_new(I::from_val(raw)), |t: T| t.into_inner(), ename)) }}");
        if fam == Family::Str {
            let _ = writeln!(m, "        fn construct_str(&self, raw: &str) -> Outcome {{ guard(|| h_result(T::try_new(raw), |t: T| t.into_inner(), ename)) }}");
        }
    } else {
        let _ = writeln!(m, "        fn construct(&self, raw: &Val) -> Outcome {{ guard(|| Outcome::Ok(inn(T::new(I::from_val(raw))))) }}");
        if fam == Family::Str {
            let _ = writeln!(m, "        fn construct_str(&self, raw: &str) -> Outcome {{ guard(|| Outcome::Ok(inn(T::new(raw)))) }}");
        }
    }
    if d.const_fn {
        let _ = writeln!(m, "        fn const_table(&self) -> Vec<(Val, Outcome)> {{\n            vec![\n{const_rows}            ]\n        }}");
    }
    if d.derives(Tr::TryFrom) {
        if hv {
            let _ = writeln!(m, "        fn try_from_inner(&self, raw: &Val) -> Outcome {{ guard(|| h_result(<T as ::core::convert::TryFrom<I>>::try_from(I::from_val(raw)), |t: T| t.into_inner(), ename)) }}");
            if fam == Family::Str {
                let _ = writeln!(m, "        fn try_from_str(&self, raw: &str) -> Outcome {{ guard(|| h_result(<T as ::core::convert::TryFrom<&str>>::try_from(raw), |t: T| t.into_inner(), ename)) }}");
            }
        } else {
            let _ = writeln!(m, "        fn try_from_inner(&self, raw: &Val) -> Outcome {{ guard(|| h_result(<T as ::core::convert::TryFrom<I>>::try_from(I::from_val(raw)), |t: T| t.into_inner(), |e: &::core::convert::Infallible| match *e {{}})) }}");
            if fam == Family::Str {
                let _ = writeln!(m, "        fn try_from_str(&self, raw: &str) -> Outcome {{ guard(|| h_result(<T as ::core::convert::TryFrom<&str>>::try_from(raw), |t: T| t.into_inner(), |e: &::core::convert::Infallible| match *e {{}})) }}");
            }
        }
    }
    if d.derives(Tr::From) {
        let _ = writeln!(m, "        fn from_inner(&self, raw: &Val) -> Outcome {{ guard(|| Outcome::Ok(inn(<T as ::core::convert::From<I>>::from(I::from_val(raw))))) }}");
        if fam == Family::Str {
            let _ = writeln!(m, "        fn from_strref(&self, raw: &str) -> Outcome {{ guard(|| Outcome::Ok(inn(<T as ::core::convert::From<&str>>::from(raw)))) }}");
        }
    }
    if d.derives(Tr::FromStr) {
        if fam == Family::Str {
            if hv {
                let _ = writeln!(m, "        fn from_str(&self, s: &str) -> Outcome {{ guard(|| h_result(<T as ::core::str::FromStr>::from_str(s), |t: T| t.into_inner(), ename)) }}");
            } else {
                let _ = writeln!(m, "        fn from_str(&self, s: &str) -> Outcome {{ guard(|| h_result(<T as ::core::str::FromStr>::from_str(s), |t: T| t.into_inner(), |e: &::core::convert::Infallible| match *e {{}})) }}");
            }
        } else {
            // generic newtypes have a generic ParseError<T>: name the instantiation explicitly
            let pe = if d.inner == Inner::GenT { format!("{name}ParseError::<i32>") } else { format!("{name}ParseError") };
            let validate_arm = if hv { format!("                    Err({pe}::Validate(e)) => {{ let variant = ename(&e).to_string(); Outcome::Err {{ variant, display: {pe}::Validate(e).to_string() }} }}\n") } else { String::new() };
            let _ = writeln!(
                m,
                "        fn from_str(&self, s: &str) -> Outcome {{\n            guard(|| {{\n                match <T as ::core::str::FromStr>::from_str(s) {{\n                    Ok(t) => Outcome::Ok(inn(t)),\n                    Err({pe}::Parse(e)) => Outcome::ParseErr {{ display: {pe}::Parse(e).to_string() }},\n{validate_arm}                }}\n            }})\n        }}"
            );
            let _ = writeln!(m, "        fn inner_from_str(&self, s: &str) -> Option<Result<Val, String>> {{ Some(s.parse::<I>().map(|x| x.to_val()).map_err(|e| format!(\"{{:?}}\", e))) }}");
        }
    }
    if d.derives(Tr::Default) {
        let _ = writeln!(m, "        fn default(&self) -> Outcome {{ guard(|| Outcome::Ok(inn(<T as ::core::default::Default>::default()))) }}");
    }
    if d.derives(Tr::Deserialize) {
        let restrict = if s.serde_full { "" } else { "            if !matches!(pos, Pos::Top | Pos::VecElem) { return DeOut::Absent; }\n" };
        let _ = writeln!(m, "        fn de(&self, fmt: Fmt, pos: Pos, doc: &[u8]) -> DeOut {{\n{restrict}            de_pos::<T>(fmt, pos, doc, inn)\n        }}");
        let _ = writeln!(m, "        fn de_plain(&self, fmt: Fmt, pos: Pos, doc: &[u8]) -> DeOut {{\n{restrict}            de_pos::<P>(fmt, pos, doc, |p: P| p.0.to_val())\n        }}");
        let _ = writeln!(m, "        fn de_probe(&self, call: &ProbeCall) -> DeOut {{ de_probe::<T>(call, inn) }}");
    }
    if d.derives(Tr::Serialize) {
        let rt = if d.derives(Tr::Deserialize) { "Some(&|b: &[u8]| match decode::<T>(fmt, b) { Ok(t) => Outcome::Ok(inn(t)), Err(e) => Outcome::ParseErr { display: e } })" } else { "None" };
        let _ = writeln!(m, "        fn ser(&self, fmt: Fmt, v: &Val) -> SerOut {{ h_ser::<T, P, I>(fmt, v, mk, |i: I| plain::{name}(i), {rt}) }}");
    }
    if d.derives(Tr::Arbitrary) {
        let _ = writeln!(
            m,
            "        fn arbitrary(&self, bytes: &[u8]) -> (Outcome, usize) {{\n            let mut u = ::arbitrary::Unstructured::new(bytes);\n            let before = u.len();\n            let r = guard(|| match <T as ::arbitrary::Arbitrary>::arbitrary(&mut u) {{ Ok(t) => Outcome::Ok(inn(t)), Err(e) => Outcome::ParseErr {{ display: e.to_string() }} }});\n            (r, before - u.len())\n        }}"
        );
    }
    // views
    {
        let mut b = String::new();
        let _ = writeln!(b, "            let Some(t) = mk(v) else {{ return Views::default(); }};\n            let mut w = Views {{ constructed: true, ..Default::default() }};\n            let r = guard_any(|| {{\n                let mut ptrs: Vec<*const u8> = vec![];");
        if d.derives(Tr::AsRef) {
            if fam == Family::Str {
                let _ = writeln!(b, "                {{ let r: &str = ::core::convert::AsRef::<str>::as_ref(&t); ptrs.push(r.as_ptr()); w.as_ref = Some(Val::S(r.to_string())); }}");
            } else {
                let _ = writeln!(b, "                {{ let r: &I = ::core::convert::AsRef::<I>::as_ref(&t); ptrs.push(r as *const I as *const u8); w.as_ref = Some(r.to_val()); }}");
            }
        }
        if d.derives(Tr::Deref) {
            if fam == Family::Str {
                let _ = writeln!(b, "                {{ let r: &String = ::core::ops::Deref::deref(&t); ptrs.push(r.as_ptr()); w.deref = Some(r.to_val()); }}");
            } else {
                let _ = writeln!(b, "                {{ let r: &I = ::core::ops::Deref::deref(&t); ptrs.push(r as *const I as *const u8); w.deref = Some(r.to_val()); }}");
            }
        }
        if d.derives(Tr::Borrow) {
            if fam == Family::Str {
                let _ = writeln!(b, "                {{ let r: &String = ::core::borrow::Borrow::<String>::borrow(&t); ptrs.push(r.as_ptr()); w.borrow = Some(r.to_val()); }}");
                let _ = writeln!(b, "                {{ let r: &str = ::core::borrow::Borrow::<str>::borrow(&t); ptrs.push(r.as_ptr()); w.borrow_str = Some(Val::S(r.to_string())); {} }}", if d.derives(Tr::Hash) { "w.hash_borrow_str = Some(rec_hash(r));" } else { "" });
            } else {
                let _ = writeln!(b, "                {{ let r: &I = ::core::borrow::Borrow::<I>::borrow(&t); ptrs.push(r as *const I as *const u8); w.borrow = Some(r.to_val()); }}");
            }
        }
        let _ = writeln!(b, "                if ptrs.len() >= 2 {{ w.ptr_same = Some(ptrs.iter().all(|p| *p == ptrs[0])); }}");
        if d.derives(Tr::Display) {
            let _ = writeln!(b, "                w.display = Some(t.to_string());");
        }
        if d.derives(Tr::Display) && d.derives(Tr::Clone) {
            // formatter options (width, fill, alignment, precision, sign, zero padding) must reach the inner value
            let _ = writeln!(b, "                {{ let i0: I = inn_of(&t);");
            for spec in ["{:>8}", "{:<6}", "{:*^9}", "{:+}", "{:08}", "{:.2}", "{:10.3}", "{:#}", "{:>+12.4}"] {
                let _ = writeln!(b, "                  w.display_fmt.push(({spec:?}.to_string(), format!({spec:?}, t), format!({spec:?}, i0)));");
            }
            let _ = writeln!(b, "                }}");
        }
        if d.derives(Tr::Debug) {
            let _ = writeln!(b, "                w.debug = Some(format!(\"{{:?}}\", t));");
        }
        if d.derives(Tr::Hash) {
            let _ = writeln!(b, "                w.hash_t = Some(rec_hash(&t));");
        }
        if d.derives(Tr::PartialEq) {
            let _ = writeln!(b, "                #[allow(clippy::eq_op)] {{ w.eq_self = Some(t == t); }}");
        }
        if d.derives(Tr::PartialOrd) {
            let _ = writeln!(b, "                w.partial_self = Some(t.partial_cmp(&t));");
        }
        if d.derives(Tr::Serialize) {
            let _ = writeln!(b, "                w.ser_events = Some(record_events(&t));");
        }
        if d.derives(Tr::IntoIterator) {
            let _ = writeln!(b, "                w.iter_ref = Some((&t).into_iter().map(|x| Val::I(*x as i128)).collect());");
        }
        if d.derives(Tr::Clone) {
            let _ = writeln!(b, "                {{ let c = t.clone(); {} w.clone_inner = Some(inn(c)); }}", if d.derives(Tr::PartialEq) { "w.clone_eq = Some(c == t);" } else { "" });
            if d.derives(Tr::IntoIterator) {
                let _ = writeln!(b, "                w.iter_val = Some(t.clone().into_iter().map(|x| Val::I(x as i128)).collect());");
            }
        }
        if d.derives(Tr::Into) {
            let _ = writeln!(b, "                {{ let i: I = t.into(); w.into = Some(i.to_val()); }}");
        }
        let _ = writeln!(b, "            }});\n            if let Err(p) = r {{ w.panic = Some(p); }}\n            w");
        let _ = writeln!(m, "        fn views(&self, v: &Val) -> Views {{\n{b}        }}");
    }
    // comparisons
    if d.derives(Tr::PartialEq) || d.derives(Tr::PartialOrd) {
        let mut b = String::new();
        let _ = writeln!(b, "            let (Some(x), Some(y)) = (mk(a), mk(b)) else {{ return CmpObs::default(); }};\n            let mut o = CmpObs {{ constructed: true, ..Default::default() }};");
        if d.derives(Tr::PartialEq) {
            let _ = writeln!(b, "            o.eq = Some(guard_any(|| x == y));");
            let _ = writeln!(b, "            o.ne = Some(guard_any(|| x != y));");
        }
        if d.derives(Tr::PartialOrd) {
            let _ = writeln!(b, "            o.partial = Some(guard_any(|| x.partial_cmp(&y)));");
            let _ = writeln!(b, "            o.ops = Some(guard_any(|| [x < y, x <= y, x > y, x >= y]));");
        }
        if d.derives(Tr::Ord) {
            let _ = writeln!(b, "            o.cmp = Some(guard_any(|| ::core::cmp::Ord::cmp(&x, &y)));");
        }
        if d.derives(Tr::Ord) && d.derives(Tr::Clone) {
            let _ = writeln!(b, "            o.maxmin = Some(guard_any(|| [inn(::core::cmp::Ord::max(x.clone(), y.clone())), inn(::core::cmp::Ord::min(x.clone(), y.clone()))]));");
        }
        if d.derives(Tr::Clone) {
            let _ = writeln!(b, "            o.clone_from = Some(guard_any(|| {{ let mut z = x.clone(); z.clone_from(&y); inn(z) }}));");
        }
        let _ = writeln!(b, "            o");
        let _ = writeln!(m, "        fn cmp(&self, a: &Val, b: &Val) -> CmpObs {{\n{b}        }}");
    }
    if d.derives(Tr::Ord) {
        let _ = writeln!(m, "        fn sort(&self, xs: &[Val], unstable: bool) -> Option<Result<Vec<Val>, String>> {{ Some(h_sort::<T>(xs, unstable, mk, inn)) }}");
        let _ = writeln!(m, "        fn btree_keys(&self, xs: &[Val]) -> Option<Result<Vec<Val>, String>> {{ Some(h_btree::<T>(xs, mk, inn)) }}");
    }
    if d.derives(Tr::Hash) && d.derives(Tr::Eq) && d.derives(Tr::Borrow) {
        if fam == Family::Str {
            let _ = writeln!(m, "        fn hashmap_lookup(&self, xs: &[Val]) -> Option<Result<bool, String>> {{ Some(h_hashmap_str::<T>(xs, mk)) }}");
        } else {
            let _ = writeln!(m, "        fn hashmap_lookup(&self, xs: &[Val]) -> Option<Result<bool, String>> {{ Some(h_hashmap::<T, I>(xs, mk)) }}");
        }
    }
    let _ = writeln!(m, "    }}\n}}");
    m
}

/// Rust expression building a `Val`
pub fn val_src(v: &Val) -> String {
    match v {
        Val::I(x) => {
            if *x == i128::MIN {
                "Val::I(i128::MIN)".into()
            } else {
                format!("Val::I({x}i128)")
            }
        }
        Val::U(x) => format!("Val::U({x}u128)"),
        Val::F32(b) => format!("Val::F32(0x{b:08x})"),
        Val::F64(b) => format!("Val::F64(0x{b:016x})"),
        Val::S(s) => format!("Val::S({s:?}.to_string())"),
        Val::V(x) => format!("Val::V(vec!{x:?})"),
        Val::P(x, y) => format!("Val::P({x}, {y})"),
    }
}

pub fn write_if_changed(path: &Path, content: &str) {
    if let Ok(old) = std::fs::read_to_string(path) {
        if old == content {
            return;
        }
    }
    if let Some(p) = path.parent() {
        std::fs::create_dir_all(p).unwrap();
    }
    std::fs::write(path, content).unwrap();
}

pub const NUTYPE_DEP: &str = "nutype = { path = \"/repo/nutype\", features = [\"serde\", \"regex\", \"arbitrary\", \"new_unchecked\"] }";

/// placeholder module for a subject that does not compile against the current tree
fn stub_module(i: usize, s: &Subj) -> String {
    format!(
        "pub mod s{i} {{\n    // excluded: this subject does not compile against the current tree (see ./check C08)\n    use ntdrv::subject::*; use ntcore::model::Val;\n    pub struct G;\n    impl Subject for G {{\n        fn idx(&self) -> usize {{ {i} }}\n        fn type_name(&self) -> &'static str {{ \"{}\" }}\n        fn excluded(&self) -> bool {{ true }}\n        fn construct(&self, _raw: &Val) -> Outcome {{ Outcome::Absent }}\n    }}\n}}\n",
        s.decl.name
    )
}

pub fn generate(tier: Tier, out: &Path, ncrates: usize, skip: &[usize]) {
    let subs = rt_subjects(tier);
    // sanity: REF must be able to interpret every subject (panics here are generator bugs)
    for s in &subs {
        let dom = domain::domain(&s.decl, Tier::Quick);
        if let Some(v) = dom.first() {
            let _ = refsem::construct(&s.decl, v);
        }
    }
    let mut crates: Vec<Vec<usize>> = vec![vec![]; ncrates];
    for i in 0..subs.len() {
        crates[i % ncrates].push(i);
    }
    let mut members = vec![];
    let mut main_deps = String::new();
    let mut main_body = String::new();
    for (c, idxs) in crates.iter().enumerate() {
        let cname = format!("rt{}_{c:02}", &tier.name()[..1]);
        members.push(cname.clone());
        let mut lib = String::from("// generated by ntgen – do not edit\n#![allow(unused, non_snake_case, clippy::all)]\n");
        for &i in idxs {
            if skip.contains(&i) {
                lib.push_str(&stub_module(i, &subs[i]));
            } else {
                lib.push_str(&subject_module(i, &subs[i]));
            }
        }
        lib.push_str("pub fn subjects() -> Vec<Box<dyn ntdrv::subject::Subject>> {\n    vec![\n");
        for &i in idxs {
            let _ = writeln!(lib, "        Box::new(s{i}::G),");
        }
        lib.push_str("    ]\n}\n");
        let cargo = format!(
            "[package]\nname = \"{cname}\"\nversion = \"0.1.0\"\nedition = \"2021\"\n\n[dependencies]\n{NUTYPE_DEP}\nntdrv = {{ path = \"/verif/harness/ntdrv\" }}\nntcore = {{ path = \"/verif/harness/ntcore\" }}\nulib = {{ path = \"/verif/harness/ulib\" }}\nserde = {{ version = \"1\", features = [\"derive\"] }}\narbitrary = \"1.3\"\nregex = \"1\"\n"
        );
        write_if_changed(&out.join(&cname).join("Cargo.toml"), &cargo);
        write_if_changed(&out.join(&cname).join("src/lib.rs"), &lib);
        let _ = writeln!(main_deps, "{cname} = {{ path = \"../{cname}\" }}");
        let _ = writeln!(main_body, "    v.extend({cname}::subjects());");
    }
    let mainname = format!("rt{}_main", &tier.name()[..1]);
    members.push(mainname.clone());
    let main_cargo = format!("[package]\nname = \"{mainname}\"\nversion = \"0.1.0\"\nedition = \"2021\"\n\n[dependencies]\nntdrv = {{ path = \"/verif/harness/ntdrv\" }}\n{main_deps}");
    let main_rs = format!("// generated by ntgen – do not edit\nfn main() {{\n    let mut v: Vec<Box<dyn ntdrv::subject::Subject>> = vec![];\n{main_body}    v.sort_by_key(|s| s.idx());\n    ntdrv::run(v, \"{}\");\n}}\n", tier.name());
    write_if_changed(&out.join(&mainname).join("Cargo.toml"), &main_cargo);
    write_if_changed(&out.join(&mainname).join("src/main.rs"), &main_rs);
    // the subject crates (the expansions + glue) are built with overflow checks and debug assertions ON: an arithmetic
    // overflow or a debug-only statement in generated code is then as visible as it is in a user's dev/test build
    let mut subject_profiles = String::new();
    for m in members.iter().filter(|m| !m.ends_with("_main")) {
        let _ = write!(subject_profiles, "[profile.release.package.{m}]\noverflow-checks = true\ndebug-assertions = true\n");
    }
    let ws = format!(
        "[workspace]\nresolver = \"2\"\nmembers = [{}]\n\n{subject_profiles}[profile.release]\nopt-level = {}\ndebug = 0\ncodegen-units = 16\nincremental = false\n\n[profile.release.package.ntdrv]\nopt-level = 3\n[profile.release.package.ntcore]\nopt-level = 3\n[profile.release.package.ulib]\nopt-level = 3\n",
        members.iter().map(|m| format!("\"{m}\"")).collect::<Vec<_>>().join(", "),
        if tier == Tier::Quick { 0 } else { 1 }
    );
    write_if_changed(&out.join("Cargo.toml"), &ws);
    write_if_changed(&out.join(".cargo/config.toml"), "[net]\noffline = true\n[build]\ntarget-dir = \"/verif/.target\"\n");
    // lock file seeded from the repository's
    if !out.join("Cargo.lock").exists() {
        let _ = std::fs::copy("/verif/harness/Cargo.lock", out.join("Cargo.lock"));
    }
    eprintln!("ntgen rt: {} subjects ({} excluded) in {} crates under {}", subs.len(), skip.len(), ncrates, out.display());
}
