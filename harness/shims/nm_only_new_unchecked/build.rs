// run nutype_macros' own build script (ERROR_IN_CORE probe), then switch the verification guard on
mod upstream {
    include!("/repo/nutype_macros/build.rs");
    pub fn run() {
        main()
    }
}
fn main() {
    upstream::run();
    println!("cargo:rustc-check-cfg=cfg(ERROR_IN_CORE)");
    println!("cargo:rustc-cfg=nutype_verif");
    println!("cargo:rerun-if-changed=/repo/nutype_macros/build.rs");
}
