// Copyright © 2019 The Rust Fuzz Project Developers.
//
// Licensed under the Apache License, Version 2.0 <LICENSE-APACHE or
// http://www.apache.org/licenses/LICENSE-2.0> or the MIT license
// <LICENSE-MIT or http://opensource.org/licenses/MIT>, at your
// option. This file may not be copied, modified, or distributed
// except according to those terms.

//! Wrappers around raw, unstructured bytes.

use crate::{Arbitrary, Error, Result};
use core::marker::PhantomData;
use core::ops::ControlFlow;
use core::{mem, ops};

/// A source of unstructured data.
///
/// An `Unstructured` helps `Arbitrary` implementations interpret raw data
/// (typically provided by a fuzzer) as a "DNA string" that describes how to
/// construct the `Arbitrary` type. The goal is that a small change to the "DNA
/// string" (the raw data wrapped by an `Unstructured`) results in a small
/// change to the generated `Arbitrary` instance. This helps a fuzzer
/// efficiently explore the `Arbitrary`'s input space.
///
/// `Unstructured` is deterministic: given the same raw data, the same series of
/// API calls will return the same results (modulo system resource constraints,
/// like running out of memory). However, `Unstructured` does not guarantee
/// anything beyond that: it makes not guarantee that it will yield bytes from
/// the underlying data in any particular order.
///
/// You shouldn't generally need to use an `Unstructured` unless you are writing
/// a custom `Arbitrary` implementation by hand, instead of deriving it. Mostly,
/// you should just be passing it through to nested `Arbitrary::arbitrary`
/// calls.
///
/// # Example
///
/// Imagine you were writing a color conversion crate. You might want to write
/// fuzz tests that take a random RGB color and assert various properties, run
/// functions and make sure nothing panics, etc.
///
/// Below is what translating the fuzzer's raw input into an `Unstructured` and
/// using that to generate an arbitrary RGB color might look like:
///
/// ```
/// # #[cfg(feature = "derive")] fn foo() {
/// use arbitrary::{Arbitrary, Unstructured};
///
/// /// An RGB color.
/// #[derive(Arbitrary)]
/// pub struct Rgb {
///     r: u8,
///     g: u8,
///     b: u8,
/// }
///
/// // Get the raw bytes from the fuzzer.
/// #   let get_input_from_fuzzer = || &[];
/// let raw_data: &[u8] = get_input_from_fuzzer();
///
/// // Wrap it in an `Unstructured`.
/// let mut unstructured = Unstructured::new(raw_data);
///
/// // Generate an `Rgb` color and run our checks.
/// if let Ok(rgb) = Rgb::arbitrary(&mut unstructured) {
/// #   let run_my_color_conversion_checks = |_| {};
///     run_my_color_conversion_checks(rgb);
/// }
/// # }
/// ```
#[derive(Debug)]
pub struct Unstructured<'a> {
    data: &'a [u8],
}

impl<'a> Unstructured<'a> {
    /// Create a new `Unstructured` from the given raw data.
    ///
    /// # Example
    ///
    /// ```
    /// use arbitrary::Unstructured;
    ///
    /// let u = Unstructured::new(&[1, 2, 3, 4]);
    /// ```
    pub fn new(data: &'a [u8]) -> Self {
        Unstructured { data }
    }

    /// Get the number of remaining bytes of underlying data that are still
    /// available.
    ///
    /// # Example
    ///
    /// ```
    /// use arbitrary::{Arbitrary, Unstructured};
    ///
    /// let mut u = Unstructured::new(&[1, 2, 3]);
    ///
    /// // Initially have three bytes of data.
    /// assert_eq!(u.len(), 3);
    ///
    /// // Generating a `bool` consumes one byte from the underlying data, so
    /// // we are left with two bytes afterwards.
    /// let _ = bool::arbitrary(&mut u);
    /// assert_eq!(u.len(), 2);
    /// ```
    #[inline]
    pub fn len(&self) -> usize {
        self.data.len()
    }

    /// Is the underlying unstructured data exhausted?
    ///
    /// `unstructured.is_empty()` is the same as `unstructured.len() == 0`.
    ///
    /// # Example
    ///
    /// ```
    /// use arbitrary::{Arbitrary, Unstructured};
    ///
    /// let mut u = Unstructured::new(&[1, 2, 3, 4]);
    ///
    /// // Initially, we are not empty.
    /// assert!(!u.is_empty());
    ///
    /// // Generating a `u32` consumes all four bytes of the underlying data, so
    /// // we become empty afterwards.
    /// let _ = u32::arbitrary(&mut u);
    /// assert!(u.is_empty());
    /// ```
    #[inline]
    pub fn is_empty(&self) -> bool {
        self.len() == 0
    }

    /// Generate an arbitrary instance of `A`.
    ///
    /// This is simply a helper method that is equivalent to `<A as
    /// Arbitrary>::arbitrary(self)`. This helper is a little bit more concise,
    /// and can be used in situations where Rust's type inference will figure
    /// out what `A` should be.
    ///
    /// # Example
    ///
    /// ```
    /// # #[cfg(feature="derive")] fn foo() -> arbitrary::Result<()> {
    /// use arbitrary::{Arbitrary, Unstructured};
    ///
    /// #[derive(Arbitrary)]
    /// struct MyType {
    ///     // ...
    /// }
    ///
    /// fn do_stuff(value: MyType) {
    /// #   let _ = value;
    ///     // ...
    /// }
    ///
    /// let mut u = Unstructured::new(&[1, 2, 3, 4]);
    ///
    /// // Rust's type inference can figure out that `value` should be of type
    /// // `MyType` here:
    /// let value = u.arbitrary()?;
    /// do_stuff(value);
    /// # Ok(()) }
    /// ```
    pub fn arbitrary<A>(&mut self) -> Result<A>
    where
        A: Arbitrary<'a>,
    {
        <A as Arbitrary<'a>>::arbitrary(self)
    }

    /// Get the number of elements to insert when building up a collection of
    /// arbitrary `ElementType`s.
    ///
    /// This uses the [`<ElementType as
    /// Arbitrary>::size_hint`][crate::Arbitrary::size_hint] method to smartly
    /// choose a length such that we most likely have enough underlying bytes to
    /// construct that many arbitrary `ElementType`s.
    ///
    /// This should only be called within an `Arbitrary` implementation.
    ///
    /// # Example
    ///
    /// ```
    /// use arbitrary::{Arbitrary, Result, Unstructured};
    /// # pub struct MyCollection<T> { _t: core::marker::PhantomData<T> }
    /// # impl<T> MyCollection<T> {
    /// #     pub fn with_capacity(capacity: usize) -> Self { MyCollection { _t: core::marker::PhantomData } }
    /// #     pub fn insert(&mut self, element: T) {}
    /// # }
    ///
    /// impl<'a, T> Arbitrary<'a> for MyCollection<T>
    /// where
    ///     T: Arbitrary<'a>,
    /// {
    ///     fn arbitrary(u: &mut Unstructured<'a>) -> Result<Self> {
    ///         // Get the number of `T`s we should insert into our collection.
    ///         let len = u.arbitrary_len::<T>()?;
    ///
    ///         // And then create a collection of that length!
    ///         let mut my_collection = MyCollection::with_capacity(len);
    ///         for _ in 0..len {
    ///             let element = T::arbitrary(u)?;
    ///             my_collection.insert(element);
    ///         }
    ///
    ///         Ok(my_collection)
    ///     }
    /// }
    /// ```
    pub fn arbitrary_len<ElementType>(&mut self) -> Result<usize>
    where
        ElementType: Arbitrary<'a>,
    {
        let byte_size = self.arbitrary_byte_size()?;
        let (lower, upper) = <ElementType as Arbitrary>::size_hint(0);
        let elem_size = upper.unwrap_or(lower * 2);
        let elem_size = core::cmp::max(1, elem_size);
        Ok(byte_size / elem_size)
    }

    fn arbitrary_byte_size(&mut self) -> Result<usize> {
        if self.data.is_empty() {
            Ok(0)
        } else if self.data.len() == 1 {
            self.data = &[];
            Ok(0)
        } else {
            // Take lengths from the end of the data, since the `libFuzzer` folks
            // found that this lets fuzzers more efficiently explore the input
            // space.
            //
            // https://github.com/rust-fuzz/libfuzzer-sys/blob/0c450753/libfuzzer/utils/FuzzedDataProvider.h#L92-L97

            // We only consume as many bytes as necessary to cover the entire
            // range of the byte string.
            // Note: We cast to u64 so we don't overflow when checking u32::MAX + 4 on 32-bit archs
            let len = if self.data.len() as u64 <= u8::MAX as u64 + 1 {
                let bytes = 1;
                let max_size = self.data.len() - bytes;
                let (rest, for_size) = self.data.split_at(max_size);
                self.data = rest;
                Self::int_in_range_impl(0..=max_size as u8, for_size.iter().copied())?.0 as usize
            } else if self.data.len() as u64 <= u16::MAX as u64 + 2 {
                let bytes = 2;
                let max_size = self.data.len() - bytes;
                let (rest, for_size) = self.data.split_at(max_size);
                self.data = rest;
                Self::int_in_range_impl(0..=max_size as u16, for_size.iter().copied())?.0 as usize
            } else if self.data.len() as u64 <= u32::MAX as u64 + 4 {
                let bytes = 4;
                let max_size = self.data.len() - bytes;
                let (rest, for_size) = self.data.split_at(max_size);
                self.data = rest;
                Self::int_in_range_impl(0..=max_size as u32, for_size.iter().copied())?.0 as usize
            } else {
                let bytes = 8;
                let max_size = self.data.len() - bytes;
                let (rest, for_size) = self.data.split_at(max_size);
                self.data = rest;
                Self::int_in_range_impl(0..=max_size as u64, for_size.iter().copied())?.0 as usize
            };

            Ok(len)
        }
    }

    /// Generate an integer within the given range.
    ///
    /// Do not use this to generate the size of a collection. Use
    /// `arbitrary_len` instead.
    ///
    /// The probability distribution of the return value is not necessarily uniform.
    ///
    /// Returns `range.start()`, not an error,
    /// if this `Unstructured` [is empty][Unstructured::is_empty].
    ///
    /// # Panics
    ///
    /// Panics if `range.start > range.end`. That is, the given range must be
    /// non-empty.
    ///
    /// # Example
    ///
    /// ```
    /// # fn foo() -> arbitrary::Result<()> {
    /// use arbitrary::{Arbitrary, Unstructured};
    ///
    /// let mut u = Unstructured::new(&[1, 2, 3, 4]);
    ///
    /// let x: i32 = u.int_in_range(-5_000..=-1_000)?;
    ///
    /// assert!(-5_000 <= x);
    /// assert!(x <= -1_000);
    /// # Ok(()) }
    /// ```
    pub fn int_in_range<T>(&mut self, range: ops::RangeInclusive<T>) -> Result<T>
    where
        T: Int,
    {
        let (result, bytes_consumed) = Self::int_in_range_impl(range, self.data.iter().cloned())?;
        self.data = &self.data[bytes_consumed..];
        Ok(result)
    }

    fn int_in_range_impl<T>(
        range: ops::RangeInclusive<T>,
        mut bytes: impl Iterator<Item = u8>,
    ) -> Result<(T, usize)>
    where
        T: Int,
    {
        let start = *range.start();
        let end = *range.end();
        assert!(
            start <= end,
            "`arbitrary::Unstructured::int_in_range` requires a non-empty range"
        );

        // When there is only one possible choice, don't waste any entropy from
        // the underlying data.
        if start == end {
            return Ok((start, 0));
        }

        // From here on out we work with the unsigned representation. All of the
        // operations performed below work out just as well whether or not `T`
        // is a signed or unsigned integer.
        let start = start.to_unsigned();
        let end = end.to_unsigned();

        let delta = end.wrapping_sub(start);
        debug_assert_ne!(delta, T::Unsigned::ZERO);

        // Compute an arbitrary integer offset from the start of the range. We
        // do this by consuming `size_of(T)` bytes from the input to create an
        // arbitrary integer and then clamping that int into our range bounds
        // with a modulo operation.
        let mut arbitrary_int = T::Unsigned::ZERO;
        let mut bytes_consumed: usize = 0;

        while (bytes_consumed < mem::size_of::<T>())
            && (delta >> T::Unsigned::from_usize(bytes_consumed * 8)) > T::Unsigned::ZERO
        {
            let byte = match bytes.next() {
                None => break,
                Some(b) => b,
            };
            bytes_consumed += 1;

            // Combine this byte into our arbitrary integer, but avoid
            // overflowing the shift for `u8` and `i8`.
            arbitrary_int = if mem::size_of::<T>() == 1 {
                T::Unsigned::from_u8(byte)
            } else {
                (arbitrary_int << 8) | T::Unsigned::from_u8(byte)
            };
        }

        let offset = if delta == T::Unsigned::MAX {
            arbitrary_int
        } else {
            arbitrary_int % (delta.checked_add(T::Unsigned::ONE).unwrap())
        };

        // Finally, we add `start` to our offset from `start` to get the result
        // actual value within the range.
        let result = start.wrapping_add(offset);

        // And convert back to our maybe-signed representation.
        let result = T::from_unsigned(result);
        debug_assert!(*range.start() <= result);
        debug_assert!(result <= *range.end());

        Ok((result, bytes_consumed))
    }

    /// Choose one of the given choices.
    ///
    /// This should only be used inside of `Arbitrary` implementations.
    ///
    /// The probability distribution of choices is not necessarily uniform.
    ///
    /// Returns the first choice, not an error,
    /// if this `Unstructured` [is empty][Unstructured::is_empty].
    ///
    /// Returns an error if no choices are provided.
    ///
    /// # Examples
    ///
    /// Selecting from an array of choices:
    ///
    /// ```
    /// use arbitrary::Unstructured;
    ///
    /// let mut u = Unstructured::new(&[1, 2, 3, 4, 5, 6, 7, 8, 9, 0]);
    /// let choices = ['a', 'b', 'c', 'd', 'e', 'f', 'g'];
    ///
    /// let choice = u.choose(&choices).unwrap();
    ///
    /// println!("chose {}", choice);
    /// ```
    ///
    /// An error is returned if no choices are provided:
    ///
    /// ```
    /// use arbitrary::Unstructured;
    ///
    /// let mut u = Unstructured::new(&[1, 2, 3, 4, 5, 6, 7, 8, 9, 0]);
    /// let choices: [char; 0] = [];
    ///
    /// let result = u.choose(&choices);
    ///
    /// assert!(result.is_err());
    /// ```
    pub fn choose<'b, T>(&mut self, choices: &'b [T]) -> Result<&'b T> {
        let idx = self.choose_index(choices.len())?;
        Ok(&choices[idx])
    }

    /// Choose one of the given iterator choices.
    ///
    /// This should only be used inside of `Arbitrary` implementations.
    ///
    /// The probability distribution of choices is not necessarily uniform.
    ///
    /// Returns the first choice, not an error,
    /// if this `Unstructured` [is empty][Unstructured::is_empty].
    ///
    /// Returns an error if no choices are provided.
    ///
    /// # Examples
    ///
    /// Selecting a random item from a set:
    ///
    /// ```
    /// use core::collections::BTreeSet;
    /// use arbitrary::Unstructured;
    ///
    /// let mut u = Unstructured::new(&[1, 2, 3, 4, 5, 6, 7, 8, 9, 0]);
    /// let set = BTreeSet::from(['a', 'b', 'c']);
    ///
    /// let choice = u.choose_iter(set.iter()).unwrap();
    ///
    /// println!("chose {}", choice);
    /// ```
    pub fn choose_iter<T, I>(&mut self, choices: I) -> Result<T>
    where
        I: IntoIterator<Item = T>,
        I::IntoIter: ExactSizeIterator,
    {
        let mut choices = choices.into_iter();
        let idx = self.choose_index(choices.len())?;
        let choice = choices
            .nth(idx)
            .expect("ExactSizeIterator should have correct len");
        Ok(choice)
    }

    /// Choose a value in `0..len`.
    ///
    /// The probability distribution of return values is not necessarily uniform.
    ///
    /// Returns zero, not an error, if this `Unstructured` [is empty][Unstructured::is_empty].
    ///
    /// Returns an error if the `len` is zero.
    ///
    /// # Examples
    ///
    /// Using Fisher–Yates shuffle shuffle to generate an arbitrary permutation.
    ///
    /// [Fisher–Yates shuffle]: https://en.wikipedia.org/wiki/Fisher–Yates_shuffle
    ///
    /// ```
    /// use arbitrary::Unstructured;
    ///
    /// let mut u = Unstructured::new(&[1, 2, 3, 4, 5, 6, 7, 8, 9, 0]);
    /// let mut permutation = ['a', 'b', 'c', 'd', 'e', 'f', 'g'];
    /// let mut to_permute = &mut permutation[..];
    /// while to_permute.len() > 1 {
    ///     let idx = u.choose_index(to_permute.len()).unwrap();
    ///     to_permute.swap(0, idx);
    ///     to_permute = &mut to_permute[1..];
    /// }
    ///
    /// println!("permutation: {:?}", permutation);
    /// ```
    ///
    /// An error is returned if the length is zero:
    ///
    /// ```
    /// use arbitrary::Unstructured;
    ///
    /// let mut u = Unstructured::new(&[1, 2, 3, 4, 5, 6, 7, 8, 9, 0]);
    /// let array: [i32; 0] = [];
    ///
    /// let result = u.choose_index(array.len());
    ///
    /// assert!(result.is_err());
    /// ```
    pub fn choose_index(&mut self, len: usize) -> Result<usize> {
        if len == 0 {
            return Err(Error::EmptyChoose);
        }
        let idx = self.int_in_range(0..=len - 1)?;
        Ok(idx)
    }

    /// Generate a boolean which is true with probability approximately the given ratio.
    ///
    /// Returns true, not an error, if this `Unstructured` [is empty][Unstructured::is_empty].
    ///
    /// # Panics
    ///
    /// Panics when the numerator and denominator do not meet these constraints:
    ///
    /// * `0 < numerator <= denominator`
    ///
    /// # Example
    ///
    /// Generate a boolean that is `true` five sevenths of the time:
    ///
    /// ```
    /// # fn foo() -> arbitrary::Result<()> {
    /// use arbitrary::Unstructured;
    ///
    /// # let my_data = [1, 2, 3, 4, 5, 6, 7, 8, 9, 0];
    /// let mut u = Unstructured::new(&my_data);
    ///
    /// if u.ratio(5, 7)? {
    ///     // Take this branch approximately 5/7 of the time.
    /// }
    /// # Ok(())
    /// # }
    /// ```
    pub fn ratio<T>(&mut self, numerator: T, denominator: T) -> Result<bool>
    where
        T: Int,
    {
        assert!(T::ZERO < numerator);
        assert!(numerator <= denominator);
        let x = self.int_in_range(T::ONE..=denominator)?;
        Ok(x <= numerator)
    }

    /// Fill a `buffer` with bytes from the underlying raw data.
    ///
    /// This should only be called within an `Arbitrary` implementation. This is
    /// a very low-level operation. You should generally prefer calling nested
    /// `Arbitrary` implementations like `<Vec<u8>>::arbitrary` and
    /// `String::arbitrary` over using this method directly.
    ///
    /// If this `Unstructured` does not have enough underlying data to fill the
    /// whole `buffer`, it pads the buffer out with zeros.
    ///
    /// # Example
    ///
    /// ```
    /// use arbitrary::Unstructured;
    ///
    /// let mut u = Unstructured::new(&[1, 2, 3, 4]);
    ///
    /// let mut buf = [0; 2];
    ///
    /// assert!(u.fill_buffer(&mut buf).is_ok());
    /// assert_eq!(buf, [1, 2]);
    ///
    /// assert!(u.fill_buffer(&mut buf).is_ok());
    /// assert_eq!(buf, [3, 4]);
    ///
    /// assert!(u.fill_buffer(&mut buf).is_ok());
    /// assert_eq!(buf, [0, 0]);
    /// ```
    pub fn fill_buffer(&mut self, buffer: &mut [u8]) -> Result<()> {
        let n = core::cmp::min(buffer.len(), self.data.len());
        buffer[..n].copy_from_slice(&self.data[..n]);
        for byte in buffer[n..].iter_mut() {
            *byte = 0;
        }
        self.data = &self.data[n..];
        Ok(())
    }

    /// Provide `size` bytes from the underlying raw data.
    ///
    /// This should only be called within an `Arbitrary` implementation. This is
    /// a very low-level operation. You should generally prefer calling nested
    /// `Arbitrary` implementations like `<Vec<u8>>::arbitrary` and
    /// `String::arbitrary` over using this method directly.
    ///
    /// # Example
    ///
    /// ```
    /// use arbitrary::Unstructured;
    ///
    /// let mut u = Unstructured::new(&[1, 2, 3, 4]);
    ///
    /// assert!(u.bytes(2).unwrap() == &[1, 2]);
    /// assert!(u.bytes(2).unwrap() == &[3, 4]);
    /// ```
    pub fn bytes(&mut self, size: usize) -> Result<&'a [u8]> {
        if self.data.len() < size {
            return Err(Error::NotEnoughData);
        }

        let (for_buf, rest) = self.data.split_at(size);
        self.data = rest;
        Ok(for_buf)
    }

    /// Peek at `size` number of bytes of the underlying raw input.
    ///
    /// Does not consume the bytes, only peeks at them.
    ///
    /// Returns `None` if there are not `size` bytes left in the underlying raw
    /// input.
    ///
    /// # Example
    ///
    /// ```
    /// use arbitrary::Unstructured;
    ///
    /// let u = Unstructured::new(&[1, 2, 3]);
    ///
    /// assert_eq!(u.peek_bytes(0).unwrap(), []);
    /// assert_eq!(u.peek_bytes(1).unwrap(), [1]);
    /// assert_eq!(u.peek_bytes(2).unwrap(), [1, 2]);
    /// assert_eq!(u.peek_bytes(3).unwrap(), [1, 2, 3]);
    ///
    /// assert!(u.peek_bytes(4).is_none());
    /// ```
    pub fn peek_bytes(&self, size: usize) -> Option<&'a [u8]> {
        self.data.get(..size)
    }

    /// Consume all of the rest of the remaining underlying bytes.
    ///
    /// Returns a slice of all the remaining, unconsumed bytes.
    ///
    /// # Example
    ///
    /// ```
    /// use arbitrary::Unstructured;
    ///
    /// let mut u = Unstructured::new(&[1, 2, 3]);
    ///
    /// let mut remaining = u.take_rest();
    ///
    /// assert_eq!(remaining, [1, 2, 3]);
    /// ```
    pub fn take_rest(mut self) -> &'a [u8] {
        mem::take(&mut self.data)
    }

    /// Provide an iterator over elements for constructing a collection
    ///
    /// This is useful for implementing [`Arbitrary::arbitrary`] on collections
    /// since the implementation is simply `u.arbitrary_iter()?.collect()`
    pub fn arbitrary_iter<'b, ElementType: Arbitrary<'a>>(
        &'b mut self,
    ) -> Result<ArbitraryIter<'a, 'b, ElementType>> {
        Ok(ArbitraryIter {
            u: &mut *self,
            _marker: PhantomData,
        })
    }

    /// Provide an iterator over elements for constructing a collection from
    /// all the remaining bytes.
    ///
    /// This is useful for implementing [`Arbitrary::arbitrary_take_rest`] on collections
    /// since the implementation is simply `u.arbitrary_take_rest_iter()?.collect()`
    pub fn arbitrary_take_rest_iter<ElementType: Arbitrary<'a>>(
        self,
    ) -> Result<ArbitraryTakeRestIter<'a, ElementType>> {
        Ok(ArbitraryTakeRestIter {
            u: self,
            _marker: PhantomData,
        })
    }

    /// Call the given function an arbitrary number of times.
    ///
    /// The function is given this `Unstructured` so that it can continue to
    /// generate arbitrary data and structures.
    ///
    /// You may optionaly specify minimum and maximum bounds on the number of
    /// times the function is called.
    ///
    /// You may break out of the loop early by returning
    /// `Ok(core::ops::ControlFlow::Break)`. To continue the loop, return
    /// `Ok(core::ops::ControlFlow::Continue)`.
    ///
    /// # Panics
    ///
    /// Panics if `min > max`.
    ///
    /// # Example
    ///
    /// Call a closure that generates an arbitrary type inside a context an
    /// arbitrary number of times:
    ///
    /// ```
    /// use arbitrary::{Result, Unstructured};
    /// use core::ops::ControlFlow;
    ///
    /// enum Type {
    ///     /// A boolean type.
    ///     Bool,
    ///
    ///     /// An integer type.
    ///     Int,
    ///
    ///     /// A list of the `i`th type in this type's context.
    ///     List(usize),
    /// }
    ///
    /// fn arbitrary_types_context(u: &mut Unstructured) -> Result<Vec<Type>> {
    ///     let mut context = vec![];
    ///
    ///     u.arbitrary_loop(Some(10), Some(20), |u| {
    ///         let num_choices = if context.is_empty() {
    ///             2
    ///         } else {
    ///             3
    ///         };
    ///         let ty = match u.int_in_range::<u8>(1..=num_choices)? {
    ///             1 => Type::Bool,
    ///             2 => Type::Int,
    ///             3 => Type::List(u.int_in_range(0..=context.len() - 1)?),
    ///             _ => unreachable!(),
    ///         };
    ///         context.push(ty);
    ///         Ok(ControlFlow::Continue(()))
    ///     })?;
    ///
    ///     // The number of loop iterations are constrained by the min/max
    ///     // bounds that we provided.
    ///     assert!(context.len() >= 10);
    ///     assert!(context.len() <= 20);
    ///
    ///     Ok(context)
    /// }
    /// ```
    pub fn arbitrary_loop(
        &mut self,
        min: Option<u32>,
        max: Option<u32>,
        mut f: impl FnMut(&mut Self) -> Result<ControlFlow<(), ()>>,
    ) -> Result<()> {
        let min = min.unwrap_or(0);
        let max = max.unwrap_or(u32::MAX);

        for _ in 0..self.int_in_range(min..=max)? {
            match f(self)? {
                ControlFlow::Continue(_) => continue,
                ControlFlow::Break(_) => break,
            }
        }

        Ok(())
    }
}

/// Utility iterator produced by [`Unstructured::arbitrary_iter`]
pub struct ArbitraryIter<'a, 'b, ElementType> {
    u: &'b mut Unstructured<'a>,
    _marker: PhantomData<ElementType>,
}

impl<'a, ElementType: Arbitrary<'a>> Iterator for ArbitraryIter<'a, '_, ElementType> {
    type Item = Result<ElementType>;
    fn next(&mut self) -> Option<Result<ElementType>> {
        let keep_going = self.u.arbitrary().unwrap_or(false);
        if keep_going {
            Some(Arbitrary::arbitrary(self.u))
        } else {
            None
        }
    }
}

/// Utility iterator produced by [`Unstructured::arbitrary_take_rest_iter`]
pub struct ArbitraryTakeRestIter<'a, ElementType> {
    u: Unstructured<'a>,
    _marker: PhantomData<ElementType>,
}

impl<'a, ElementType: Arbitrary<'a>> Iterator for ArbitraryTakeRestIter<'a, ElementType> {
    type Item = Result<ElementType>;
    fn next(&mut self) -> Option<Result<ElementType>> {
        let keep_going = self.u.arbitrary().unwrap_or(false);
        if keep_going {
            Some(Arbitrary::arbitrary(&mut self.u))
        } else {
            None
        }
    }
}

/// A trait that is implemented for all of the primitive integers:
///
/// * `u8`
/// * `u16`
/// * `u32`
/// * `u64`
/// * `u128`
/// * `usize`
/// * `i8`
/// * `i16`
/// * `i32`
/// * `i64`
/// * `i128`
/// * `isize`
///
/// Don't implement this trait yourself.
pub trait Int:
    Copy
    + core::fmt::Debug
    + PartialOrd
    + Ord
    + ops::Sub<Self, Output = Self>
    + ops::Rem<Self, Output = Self>
    + ops::Shr<Self, Output = Self>
    + ops::Shl<usize, Output = Self>
    + ops::BitOr<Self, Output = Self>
{
    #[doc(hidden)]
    type Unsigned: Int;

    #[doc(hidden)]
    const ZERO: Self;

    #[doc(hidden)]
    const ONE: Self;

    #[doc(hidden)]
    const MAX: Self;

    #[doc(hidden)]
    fn from_u8(b: u8) -> Self;

    #[doc(hidden)]
    fn from_usize(u: usize) -> Self;

    #[doc(hidden)]
    fn checked_add(self, rhs: Self) -> Option<Self>;

    #[doc(hidden)]
    fn wrapping_add(self, rhs: Self) -> Self;

    #[doc(hidden)]
    fn wrapping_sub(self, rhs: Self) -> Self;

    #[doc(hidden)]
    fn to_unsigned(self) -> Self::Unsigned;

    #[doc(hidden)]
    fn from_unsigned(unsigned: Self::Unsigned) -> Self;
}

macro_rules! impl_int {
    ( $( $ty:ty : $unsigned_ty: ty ; )* ) => {
        $(
            impl Int for $ty {
                type Unsigned = $unsigned_ty;

                const ZERO: Self = 0;

                const ONE: Self = 1;

                const MAX: Self = Self::MAX;

                fn from_u8(b: u8) -> Self {
                    b as Self
                }

                fn from_usize(u: usize) -> Self {
                    u as Self
                }

                fn checked_add(self, rhs: Self) -> Option<Self> {
                    <$ty>::checked_add(self, rhs)
                }

                fn wrapping_add(self, rhs: Self) -> Self {
                    <$ty>::wrapping_add(self, rhs)
                }

                fn wrapping_sub(self, rhs: Self) -> Self {
                    <$ty>::wrapping_sub(self, rhs)
                }

                fn to_unsigned(self) -> Self::Unsigned {
                    self as $unsigned_ty
                }

                fn from_unsigned(unsigned: $unsigned_ty) -> Self {
                    unsigned as Self
                }
            }
        )*
    }
}

impl_int! {
    u8: u8;
    u16: u16;
    u32: u32;
    u64: u64;
    u128: u128;
    usize: usize;
    i8: u8;
    i16: u16;
    i32: u32;
    i64: u64;
    i128: u128;
    isize: usize;
}

#[cfg(test)]
mod tests {
    use super::*;

    #[test]
    fn test_byte_size() {
        let mut u = Unstructured::new(&[1, 2, 3, 4, 5, 6, 7, 8, 9, 6]);
        // Should take one byte off the end
        assert_eq!(u.arbitrary_byte_size().unwrap(), 6);
        assert_eq!(u.len(), 9);
        let mut v = vec![0; 260];
        v.push(1);
        v.push(4);
        let mut u = Unstructured::new(&v);
        // Should read two bytes off the end
        assert_eq!(u.arbitrary_byte_size().unwrap(), 0x104);
        assert_eq!(u.len(), 260);
    }

    #[test]
    fn int_in_range_of_one() {
        let mut u = Unstructured::new(&[1, 2, 3, 4, 5, 6, 7, 8, 9, 6]);
        let x = u.int_in_range(0..=0).unwrap();
        assert_eq!(x, 0);
        let choice = *u.choose(&[42]).unwrap();
        assert_eq!(choice, 42)
    }

    #[test]
    fn int_in_range_uses_minimal_amount_of_bytes() {
        let mut u = Unstructured::new(&[1, 2]);
        assert_eq!(1, u.int_in_range::<u8>(0..=u8::MAX).unwrap());
        assert_eq!(u.len(), 1);

        let mut u = Unstructured::new(&[1, 2]);
        assert_eq!(1, u.int_in_range::<u32>(0..=u8::MAX as u32).unwrap());
        assert_eq!(u.len(), 1);

        let mut u = Unstructured::new(&[1]);
        assert_eq!(1, u.int_in_range::<u32>(0..=u8::MAX as u32 + 1).unwrap());
        assert!(u.is_empty());
    }

    #[test]
    fn int_in_range_in_bounds() {
        for input in u8::MIN..=u8::MAX {
            let input = [input];

            let mut u = Unstructured::new(&input);
            let x = u.int_in_range(1..=u8::MAX).unwrap();
            assert_ne!(x, 0);

            let mut u = Unstructured::new(&input);
            let x = u.int_in_range(0..=u8::MAX - 1).unwrap();
            assert_ne!(x, u8::MAX);
        }
    }

    #[test]
    fn int_in_range_covers_unsigned_range() {
        // Test that we generate all values within the range given to
        // `int_in_range`.

        let mut full = [false; u8::MAX as usize + 1];
        let mut no_zero = [false; u8::MAX as usize];
        let mut no_max = [false; u8::MAX as usize];
        let mut narrow = [false; 10];

        for input in u8::MIN..=u8::MAX {
            let input = [input];

            let mut u = Unstructured::new(&input);
            let x = u.int_in_range(0..=u8::MAX).unwrap();
            full[x as usize] = true;

            let mut u = Unstructured::new(&input);
            let x = u.int_in_range(1..=u8::MAX).unwrap();
            no_zero[x as usize - 1] = true;

            let mut u = Unstructured::new(&input);
            let x = u.int_in_range(0..=u8::MAX - 1).unwrap();
            no_max[x as usize] = true;

            let mut u = Unstructured::new(&input);
            let x = u.int_in_range(100..=109).unwrap();
            narrow[x as usize - 100] = true;
        }

        for (i, covered) in full.iter().enumerate() {
            assert!(covered, "full[{}] should have been generated", i);
        }
        for (i, covered) in no_zero.iter().enumerate() {
            assert!(covered, "no_zero[{}] should have been generated", i);
        }
        for (i, covered) in no_max.iter().enumerate() {
            assert!(covered, "no_max[{}] should have been generated", i);
        }
        for (i, covered) in narrow.iter().enumerate() {
            assert!(covered, "narrow[{}] should have been generated", i);
        }
    }

    #[test]
    fn int_in_range_covers_signed_range() {
        // Test that we generate all values within the range given to
        // `int_in_range`.

        let mut full = [false; u8::MAX as usize + 1];
        let mut no_min = [false; u8::MAX as usize];
        let mut no_max = [false; u8::MAX as usize];
        let mut narrow = [false; 21];

        let abs_i8_min: isize = 128;

        for input in 0..=u8::MAX {
            let input = [input];

            let mut u = Unstructured::new(&input);
            let x = u.int_in_range(i8::MIN..=i8::MAX).unwrap();
            full[(x as isize + abs_i8_min) as usize] = true;

            let mut u = Unstructured::new(&input);
            let x = u.int_in_range(i8::MIN + 1..=i8::MAX).unwrap();
            no_min[(x as isize + abs_i8_min - 1) as usize] = true;

            let mut u = Unstructured::new(&input);
            let x = u.int_in_range(i8::MIN..=i8::MAX - 1).unwrap();
            no_max[(x as isize + abs_i8_min) as usize] = true;

            let mut u = Unstructured::new(&input);
            let x = u.int_in_range(-10..=10).unwrap();
            narrow[(x as isize + 10) as usize] = true;
        }

        for (i, covered) in full.iter().enumerate() {
            assert!(covered, "full[{}] should have been generated", i);
        }
        for (i, covered) in no_min.iter().enumerate() {
            assert!(covered, "no_min[{}] should have been generated", i);
        }
        for (i, covered) in no_max.iter().enumerate() {
            assert!(covered, "no_max[{}] should have been generated", i);
        }
        for (i, covered) in narrow.iter().enumerate() {
            assert!(covered, "narrow[{}] should have been generated", i);
        }
    }
}
