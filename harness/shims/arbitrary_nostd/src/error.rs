use core::{error, fmt};

/// An enumeration of buffer creation errors
#[derive(Debug, Clone, Copy, PartialEq, Eq)]
#[non_exhaustive]
pub enum Error {
    /// No choices were provided to the Unstructured::choose call
    EmptyChoose,
    /// There was not enough underlying data to fulfill some request for raw
    /// bytes.
    ///
    /// Note that outside of [`Unstructured::bytes`][crate::Unstructured::bytes],
    /// most APIs do *not* return this error when running out of underlying arbitrary bytes
    /// but silently return some default value instead.
    NotEnoughData,
    /// The input bytes were not of the right format
    IncorrectFormat,
}

impl fmt::Display for Error {
    fn fmt(&self, f: &mut fmt::Formatter<'_>) -> fmt::Result {
        match self {
            Error::EmptyChoose => write!(
                f,
                "`arbitrary::Unstructured::choose` must be given a non-empty set of choices"
            ),
            Error::NotEnoughData => write!(
                f,
                "There is not enough underlying raw data to construct an `Arbitrary` instance"
            ),
            Error::IncorrectFormat => write!(
                f,
                "The raw data is not of the correct format to construct this type"
            ),
        }
    }
}

impl error::Error for Error {}

/// A `Result` with the error type fixed as `arbitrary::Error`.
///
/// Either an `Ok(T)` or `Err(arbitrary::Error)`.
pub type Result<T, E = Error> = core::result::Result<T, E>;

#[cfg(test)]
mod tests {
    // Often people will import our custom `Result` type because 99.9% of
    // results in a file will be `arbitrary::Result` but then have that one last
    // 0.1% that want to have a custom error type. Don't make them prefix that
    // 0.1% as `core::result::Result`; instead, let `arbitrary::Result` have an
    // overridable error type.
    #[test]
    fn can_use_custom_error_types_with_result() -> super::Result<(), String> {
        Ok(())
    }
}
