// Copyright © 2019 The Rust Fuzz Project Developers.
//
// Licensed under the Apache License, Version 2.0 <LICENSE-APACHE or
// http://www.apache.org/licenses/LICENSE-2.0> or the MIT license
// <LICENSE-MIT or http://opensource.org/licenses/MIT>, at your
// option. This file may not be copied, modified, or distributed
// except according to those terms.
#![no_std]
#![allow(unused, missing_docs)]

//! The `Arbitrary` trait crate.
//!
//! This trait provides an [`Arbitrary`] trait to
//! produce well-typed, structured values, from raw, byte buffers. It is
//! generally intended to be used with fuzzers like AFL or libFuzzer. See the
//! [`Arbitrary`] trait's documentation for details on
//! automatically deriving, implementing, and/or using the trait.


extern crate alloc;
mod error;
mod foreign;
pub mod size_hint;
pub mod unstructured;


pub use error::*;

#[cfg(feature = "derive_arbitrary")]
pub use derive_arbitrary::*;

#[doc(inline)]
pub use unstructured::Unstructured;

/// Error indicating that the maximum recursion depth has been reached while calculating [`Arbitrary::size_hint`]()
#[derive(Debug, Clone)]
#[non_exhaustive]
pub struct MaxRecursionReached {}

impl core::fmt::Display for MaxRecursionReached {
    fn fmt(&self, f: &mut core::fmt::Formatter<'_>) -> core::fmt::Result {
        f.write_str("Maximum recursion depth has been reached")
    }
}

impl core::error::Error for MaxRecursionReached {}

/// Generate arbitrary structured values from raw, unstructured data.
///
/// The `Arbitrary` trait allows you to generate valid structured values, like
/// `HashMap`s, or ASTs, or `MyTomlConfig`, or any other data structure from
/// raw, unstructured bytes provided by a fuzzer.
///
/// # Deriving `Arbitrary`
///
/// Automatically deriving the `Arbitrary` trait is the recommended way to
/// implement `Arbitrary` for your types.
///
/// Using the custom derive requires that you enable the `"derive"` cargo
/// feature in your `Cargo.toml`:
///
/// ```toml
/// [dependencies]
/// arbitrary = { version = "1", features = ["derive"] }
/// ```
///
/// Then, you add the `#[derive(Arbitrary)]` annotation to your `struct` or
/// `enum` type definition:
///
/// ```
/// # #[cfg(feature = "derive")] mod foo {
/// use arbitrary::Arbitrary;
/// use core::collections::HashSet;
///
/// #[derive(Arbitrary)]
/// pub struct AddressBook {
///     friends: HashSet<Friend>,
/// }
///
/// #[derive(Arbitrary, Hash, Eq, PartialEq)]
/// pub enum Friend {
///     Buddy { name: String },
///     Pal { age: usize },
/// }
/// # }
/// ```
///
/// Every member of the `struct` or `enum` must also implement `Arbitrary`.
///
/// It is also possible to change the default bounds added by the derive:
///
/// ```
/// # #[cfg(feature = "derive")] mod foo {
/// use arbitrary::Arbitrary;
///
/// trait Trait {
///     type Assoc: for<'a> Arbitrary<'a>;
/// }
///
/// #[derive(Arbitrary)]
/// // The bounds are used verbatim, so any existing trait bounds will need to be repeated.
/// #[arbitrary(bound = "T: Trait")]
/// struct Point<T: Trait> {
///     x: T::Assoc,
/// }
/// # }
/// ```
///
/// # Implementing `Arbitrary` By Hand
///
/// Implementing `Arbitrary` mostly involves nested calls to other `Arbitrary`
/// arbitrary implementations for each of your `struct` or `enum`'s members. But
/// sometimes you need some amount of raw data, or you need to generate a
/// variably-sized collection type, or something of that sort. The
/// [`Unstructured`] type helps you with these tasks.
///
/// ```
/// # #[cfg(feature = "derive")] mod foo {
/// # pub struct MyCollection<T> { _t: core::marker::PhantomData<T> }
/// # impl<T> MyCollection<T> {
/// #     pub fn new() -> Self { MyCollection { _t: core::marker::PhantomData } }
/// #     pub fn insert(&mut self, element: T) {}
/// # }
/// use arbitrary::{Arbitrary, Result, Unstructured};
///
/// impl<'a, T> Arbitrary<'a> for MyCollection<T>
/// where
///     T: Arbitrary<'a>,
/// {
///     fn arbitrary(u: &mut Unstructured<'a>) -> Result<Self> {
///         // Get an iterator of arbitrary `T`s.
///         let iter = u.arbitrary_iter::<T>()?;
///
///         // And then create a collection!
///         let mut my_collection = MyCollection::new();
///         for elem_result in iter {
///             let elem = elem_result?;
///             my_collection.insert(elem);
///         }
///
///         Ok(my_collection)
///     }
/// }
/// # }
/// ```
///
/// # A Note On Output Distributions
///
/// There is no requirement for a particular distribution of the values. For
/// example, it is not required that every value appears with the same
/// probability. That being said, the main use for `Arbitrary` is for fuzzing,
/// so in many cases a uniform distribution will make the most sense in order to
/// provide the best coverage of the domain. In other cases this is not
/// desirable or even possible, for example when sampling from a uniform
/// distribution is computationally expensive or in the case of collections that
/// may grow indefinitely.
pub trait Arbitrary<'a>: Sized {
    /// Generate an arbitrary value of `Self` from the given unstructured data.
    ///
    /// Calling `Arbitrary::arbitrary` requires that you have some raw data,
    /// perhaps given to you by a fuzzer like AFL or libFuzzer. You wrap this
    /// raw data in an `Unstructured`, and then you can call `<MyType as
    /// Arbitrary>::arbitrary` to construct an arbitrary instance of `MyType`
    /// from that unstructured data.
    ///
    /// Implementations may return an error if there is not enough data to
    /// construct a full instance of `Self`, or they may fill out the rest of
    /// `Self` with dummy values. Using dummy values when the underlying data is
    /// exhausted can help avoid accidentally "defeating" some of the fuzzer's
    /// mutations to the underlying byte stream that might otherwise lead to
    /// interesting runtime behavior or new code coverage if only we had just a
    /// few more bytes. However, it also requires that implementations for
    /// recursive types (e.g. `struct Foo(Option<Box<Foo>>)`) avoid infinite
    /// recursion when the underlying data is exhausted.
    ///
    /// ```
    /// # #[cfg(feature = "derive")] fn foo() {
    /// use arbitrary::{Arbitrary, Unstructured};
    ///
    /// #[derive(Arbitrary)]
    /// pub struct MyType {
    ///     // ...
    /// }
    ///
    /// // Get the raw data from the fuzzer or wherever else.
    /// # let get_raw_data_from_fuzzer = || &[];
    /// let raw_data: &[u8] = get_raw_data_from_fuzzer();
    ///
    /// // Wrap that raw data in an `Unstructured`.
    /// let mut unstructured = Unstructured::new(raw_data);
    ///
    /// // Generate an arbitrary instance of `MyType` and do stuff with it.
    /// if let Ok(value) = MyType::arbitrary(&mut unstructured) {
    /// #   let do_stuff = |_| {};
    ///     do_stuff(value);
    /// }
    /// # }
    /// ```
    ///
    /// See also the documentation for [`Unstructured`].
    fn arbitrary(u: &mut Unstructured<'a>) -> Result<Self>;

    /// Generate an arbitrary value of `Self` from the entirety of the given
    /// unstructured data.
    ///
    /// This is similar to Arbitrary::arbitrary, however it assumes that it is
    /// the last consumer of the given data, and is thus able to consume it all
    /// if it needs.  See also the documentation for
    /// [`Unstructured`].
    fn arbitrary_take_rest(mut u: Unstructured<'a>) -> Result<Self> {
        Self::arbitrary(&mut u)
    }

    /// Get a size hint for how many bytes out of an `Unstructured` this type
    /// needs to construct itself.
    ///
    /// This is useful for determining how many elements we should insert when
    /// creating an arbitrary collection.
    ///
    /// The return value is similar to [`Iterator::size_hint`]: it returns a
    /// tuple where the first element is a lower bound on the number of bytes
    /// required, and the second element is an optional upper bound.
    ///
    /// The default implementation return `(0, None)` which is correct for any
    /// type, but not ultimately that useful. Using `#[derive(Arbitrary)]` will
    /// create a better implementation. If you are writing an `Arbitrary`
    /// implementation by hand, and your type can be part of a dynamically sized
    /// collection (such as `Vec`), you are strongly encouraged to override this
    /// default with a better implementation, and also override
    /// [`try_size_hint`].
    ///
    /// ## How to implement this
    ///
    /// If the size hint calculation is a trivial constant and does not recurse
    /// into any other `size_hint` call, you should implement it in `size_hint`:
    ///
    /// ```
    /// use arbitrary::{size_hint, Arbitrary, Result, Unstructured};
    ///
    /// struct SomeStruct(u8);
    ///
    /// impl<'a> Arbitrary<'a> for SomeStruct {
    ///     fn arbitrary(u: &mut Unstructured<'a>) -> Result<Self> {
    ///         let buf = &mut [0];
    ///         u.fill_buffer(buf)?;
    ///         Ok(SomeStruct(buf[0]))
    ///     }
    ///
    ///     #[inline]
    ///     fn size_hint(depth: usize) -> (usize, Option<usize>) {
    ///         let _ = depth;
    ///         (1, Some(1))
    ///     }
    /// }
    /// ```
    ///
    /// Otherwise, it should instead be implemented in [`try_size_hint`],
    /// and the `size_hint` implementation should forward to it:
    ///
    /// ```
    /// use arbitrary::{size_hint, Arbitrary, MaxRecursionReached, Result, Unstructured};
    ///
    /// struct SomeStruct<A, B> {
    ///     a: A,
    ///     b: B,
    /// }
    ///
    /// impl<'a, A: Arbitrary<'a>, B: Arbitrary<'a>> Arbitrary<'a> for SomeStruct<A, B> {
    ///     fn arbitrary(u: &mut Unstructured<'a>) -> Result<Self> {
    ///         // ...
    /// #       todo!()
    ///     }
    ///
    ///     fn size_hint(depth: usize) -> (usize, Option<usize>) {
    ///         // Return the value of try_size_hint
    ///         //
    ///         // If the recursion fails, return the default, always valid `(0, None)`
    ///         Self::try_size_hint(depth).unwrap_or_default()
    ///     }
    ///
    ///     fn try_size_hint(depth: usize) -> Result<(usize, Option<usize>), MaxRecursionReached> {
    ///         // Protect against potential infinite recursion with
    ///         // `try_recursion_guard`.
    ///         size_hint::try_recursion_guard(depth, |depth| {
    ///             // If we aren't too deep, then `recursion_guard` calls
    ///             // this closure, which implements the natural size hint.
    ///             // Don't forget to use the new `depth` in all nested
    ///             // `try_size_hint` calls! We recommend shadowing the
    ///             // parameter, like what is done here, so that you can't
    ///             // accidentally use the wrong depth.
    ///             Ok(size_hint::and(
    ///                 <A as Arbitrary>::try_size_hint(depth)?,
    ///                 <B as Arbitrary>::try_size_hint(depth)?,
    ///             ))
    ///         })
    ///     }
    /// }
    /// ```
    ///
    /// ## Invariant
    ///
    /// It must be possible to construct every possible output using only inputs
    /// of lengths bounded by these parameters. This applies to both
    /// [`Arbitrary::arbitrary`] and [`Arbitrary::arbitrary_take_rest`].
    ///
    /// This is trivially true for `(0, None)`. To restrict this further, it
    /// must be proven that all inputs that are now excluded produced redundant
    /// outputs which are still possible to produce using the reduced input
    /// space.
    ///
    /// [iterator-size-hint]: https://doc.rust-lang.org/stable/std/iter/trait.Iterator.html#method.size_hint
    /// [`try_size_hint`]: Arbitrary::try_size_hint
    #[inline]
    fn size_hint(depth: usize) -> (usize, Option<usize>) {
        let _ = depth;
        (0, None)
    }

    /// Get a size hint for how many bytes out of an `Unstructured` this type
    /// needs to construct itself.
    ///
    /// Unlike [`size_hint`], this function keeps the information that the
    /// recursion limit was reached. This is required to "short circuit" the
    /// calculation and avoid exponential blowup with recursive structures.
    ///
    /// If you are implementing [`size_hint`] for a struct that could be
    /// recursive, you should implement `try_size_hint` and call the
    /// `try_size_hint` when recursing
    ///
    ///
    /// The return value is similar to [`core::iter::Iterator::size_hint`]: it
    /// returns a tuple where the first element is a lower bound on the number
    /// of bytes required, and the second element is an optional upper bound.
    ///
    /// The default implementation returns the value of [`size_hint`] which is
    /// correct for any type, but might lead to exponential blowup when dealing
    /// with recursive types.
    ///
    /// ## Invariant
    ///
    /// It must be possible to construct every possible output using only inputs
    /// of lengths bounded by these parameters. This applies to both
    /// [`Arbitrary::arbitrary`] and [`Arbitrary::arbitrary_take_rest`].
    ///
    /// This is trivially true for `(0, None)`. To restrict this further, it
    /// must be proven that all inputs that are now excluded produced redundant
    /// outputs which are still possible to produce using the reduced input
    /// space.
    ///
    /// ## When to implement `try_size_hint`
    ///
    /// If you 100% know that the type you are implementing `Arbitrary` for is
    /// not a recursive type, or your implementation is not transitively calling
    /// any other `size_hint` methods, you may implement [`size_hint`], and the
    /// default `try_size_hint` implementation will use it.
    ///
    /// Note that if you are implementing `Arbitrary` for a generic type, you
    /// cannot guarantee the lack of type recursion!
    ///
    /// Otherwise, when there is possible type recursion, you should implement
    /// `try_size_hint` instead.
    ///
    /// ## The `depth` parameter
    ///
    /// When implementing `try_size_hint`, you need to use
    /// [`arbitrary::size_hint::try_recursion_guard(depth)`][crate::size_hint::try_recursion_guard]
    /// to prevent potential infinite recursion when calculating size hints for
    /// potentially recursive types:
    ///
    /// ```
    /// use arbitrary::{size_hint, Arbitrary, MaxRecursionReached, Unstructured};
    ///
    /// // This can potentially be a recursive type if `L` or `R` contain
    /// // something like `Box<Option<MyEither<L, R>>>`!
    /// enum MyEither<L, R> {
    ///     Left(L),
    ///     Right(R),
    /// }
    ///
    /// impl<'a, L, R> Arbitrary<'a> for MyEither<L, R>
    /// where
    ///     L: Arbitrary<'a>,
    ///     R: Arbitrary<'a>,
    /// {
    ///     fn arbitrary(u: &mut Unstructured) -> arbitrary::Result<Self> {
    ///         // ...
    /// #       unimplemented!()
    ///     }
    ///
    ///     fn size_hint(depth: usize) -> (usize, Option<usize>) {
    ///         // Return the value of `try_size_hint`
    ///         //
    ///         // If the recursion fails, return the default `(0, None)` range,
    ///         // which is always valid.
    ///         Self::try_size_hint(depth).unwrap_or_default()
    ///     }
    ///
    ///     fn try_size_hint(depth: usize) -> Result<(usize, Option<usize>), MaxRecursionReached> {
    ///         // Protect against potential infinite recursion with
    ///         // `try_recursion_guard`.
    ///         size_hint::try_recursion_guard(depth, |depth| {
    ///             // If we aren't too deep, then `recursion_guard` calls
    ///             // this closure, which implements the natural size hint.
    ///             // Don't forget to use the new `depth` in all nested
    ///             // `try_size_hint` calls! We recommend shadowing the
    ///             // parameter, like what is done here, so that you can't
    ///             // accidentally use the wrong depth.
    ///             Ok(size_hint::or(
    ///                 <L as Arbitrary>::try_size_hint(depth)?,
    ///                 <R as Arbitrary>::try_size_hint(depth)?,
    ///             ))
    ///         })
    ///     }
    /// }
    /// ```
    #[inline]
    fn try_size_hint(depth: usize) -> Result<(usize, Option<usize>), MaxRecursionReached> {
        Ok(Self::size_hint(depth))
    }
}

#[cfg(test)]
mod test {
    use super::*;

    #[test]
    fn exhausted_entropy() {
        let mut u = Unstructured::new(&[]);
        assert_eq!(u.arbitrary::<bool>().unwrap(), false);
        assert_eq!(u.arbitrary::<u8>().unwrap(), 0);
        assert_eq!(u.arbitrary::<usize>().unwrap(), 0);
        assert_eq!(u.arbitrary::<f32>().unwrap(), 0.0);
        assert_eq!(u.arbitrary::<f64>().unwrap(), 0.0);
        assert_eq!(u.arbitrary::<Option<u32>>().unwrap(), None);
        assert_eq!(u.int_in_range(4..=100).unwrap(), 4);
        assert_eq!(u.choose_index(10).unwrap(), 0);
        assert_eq!(u.ratio(5, 7).unwrap(), true);
    }
}
