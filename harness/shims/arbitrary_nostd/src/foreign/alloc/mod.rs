//! Implementations of [`Arbitrary`] for [`alloc`] types,
//!   excluding those in [`core`].
//!
//! [`Arbitrary`]: crate::Arbitrary

mod borrow;
mod boxed;
mod collections;
mod ffi;
mod rc;
mod string;
mod sync;
mod vec;
