use {
    crate::{Arbitrary, Result, Unstructured},
    ::alloc::vec::Vec,
};

impl<'a, A> Arbitrary<'a> for Vec<A>
where
    A: Arbitrary<'a>,
{
    fn arbitrary(u: &mut Unstructured<'a>) -> Result<Self> {
        u.arbitrary_iter()?.collect()
    }

    fn arbitrary_take_rest(u: Unstructured<'a>) -> Result<Self> {
        u.arbitrary_take_rest_iter()?.collect()
    }

    #[inline]
    fn size_hint(_depth: usize) -> (usize, Option<usize>) {
        (0, None)
    }
}
