use {
    crate::{Arbitrary, Result, Unstructured},
    ::alloc::ffi::CString,
};

impl<'a> Arbitrary<'a> for CString {
    fn arbitrary(u: &mut Unstructured<'a>) -> Result<Self> {
        <Vec<u8> as Arbitrary>::arbitrary(u).map(|mut x| {
            x.retain(|&c| c != 0);
            // SAFETY: all zero bytes have been removed
            unsafe { Self::from_vec_unchecked(x) }
        })
    }

    #[inline]
    fn size_hint(depth: usize) -> (usize, Option<usize>) {
        <Vec<u8> as Arbitrary>::size_hint(depth)
    }
}

#[allow(unused_imports)]
use ::alloc::vec::Vec;
