mod c_str;
