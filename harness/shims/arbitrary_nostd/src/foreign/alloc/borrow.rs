use {
    crate::{size_hint, Arbitrary, Result, Unstructured},
    ::alloc::borrow::{Cow, ToOwned},
};

impl<'a, A> Arbitrary<'a> for Cow<'a, A>
where
    A: ToOwned + ?Sized + 'a,
    <A as ToOwned>::Owned: Arbitrary<'a>,
{
    fn arbitrary(u: &mut Unstructured<'a>) -> Result<Self> {
        Arbitrary::arbitrary(u).map(Cow::Owned)
    }

    #[inline]
    fn size_hint(depth: usize) -> (usize, Option<usize>) {
        Self::try_size_hint(depth).unwrap_or_default()
    }

    #[inline]
    fn try_size_hint(depth: usize) -> Result<(usize, Option<usize>), crate::MaxRecursionReached> {
        size_hint::try_recursion_guard(depth, |depth| {
            <<A as ToOwned>::Owned as Arbitrary>::try_size_hint(depth)
        })
    }
}
