use {
    crate::{Arbitrary, Result, Unstructured},
    ::alloc::string::String,
};

impl<'a> Arbitrary<'a> for String {
    fn arbitrary(u: &mut Unstructured<'a>) -> Result<Self> {
        <&str as Arbitrary>::arbitrary(u).map(Into::into)
    }

    fn arbitrary_take_rest(u: Unstructured<'a>) -> Result<Self> {
        <&str as Arbitrary>::arbitrary_take_rest(u).map(Into::into)
    }

    #[inline]
    fn size_hint(depth: usize) -> (usize, Option<usize>) {
        <&str as Arbitrary>::size_hint(depth)
    }
}
