use {
    crate::{Arbitrary, Result, Unstructured},
    ::alloc::collections::btree_set::BTreeSet,
};

impl<'a, A> Arbitrary<'a> for BTreeSet<A>
where
    A: Arbitrary<'a> + Ord,
{
    fn arbitrary(u: &mut Unstructured<'a>) -> Result<Self> {
        u.arbitrary_iter()?.collect()
    }

    fn arbitrary_take_rest(u: Unstructured<'a>) -> Result<Self> {
        u.arbitrary_take_rest_iter()?.collect()
    }

    #[inline]
    fn size_hint(_depth: usize) -> (usize, Option<usize>) {
        (0, None)
    }
}
