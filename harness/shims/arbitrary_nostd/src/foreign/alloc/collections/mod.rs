mod binary_heap;
mod btree_map;
mod btree_set;
mod linked_list;
mod vec_deque;
