use {
    crate::{size_hint, Arbitrary, Result, Unstructured},
    ::alloc::rc::Rc,
};

impl<'a, A> Arbitrary<'a> for Rc<A>
where
    A: Arbitrary<'a>,
{
    fn arbitrary(u: &mut Unstructured<'a>) -> Result<Self> {
        Arbitrary::arbitrary(u).map(Self::new)
    }

    #[inline]
    fn size_hint(depth: usize) -> (usize, Option<usize>) {
        Self::try_size_hint(depth).unwrap_or_default()
    }

    #[inline]
    fn try_size_hint(depth: usize) -> Result<(usize, Option<usize>), crate::MaxRecursionReached> {
        size_hint::try_recursion_guard(depth, <A as Arbitrary>::try_size_hint)
    }
}

impl<'a, A> Arbitrary<'a> for Rc<[A]>
where
    A: Arbitrary<'a>,
{
    fn arbitrary(u: &mut Unstructured<'a>) -> Result<Self> {
        u.arbitrary_iter()?.collect()
    }

    fn arbitrary_take_rest(u: Unstructured<'a>) -> Result<Self> {
        u.arbitrary_take_rest_iter()?.collect()
    }

    #[inline]
    fn size_hint(_depth: usize) -> (usize, Option<usize>) {
        (0, None)
    }
}

impl<'a> Arbitrary<'a> for Rc<str> {
    fn arbitrary(u: &mut Unstructured<'a>) -> Result<Self> {
        <&str as Arbitrary>::arbitrary(u).map(Into::into)
    }

    #[inline]
    fn size_hint(depth: usize) -> (usize, Option<usize>) {
        <&str as Arbitrary>::size_hint(depth)
    }
}
