//! Implementations of [`Arbitrary`] for foreign types.
//!
//! [`Arbitrary`]: crate::Arbitrary

mod alloc;
mod core;
