use crate::{Arbitrary, Result, Unstructured};

/// Returns '\0', not an error, if this `Unstructured` [is empty][Unstructured::is_empty].
impl<'a> Arbitrary<'a> for char {
    fn arbitrary(u: &mut Unstructured<'a>) -> Result<Self> {
        // The highest unicode code point is 0x11_FFFF
        const CHAR_END: u32 = 0x11_0000;
        // The size of the surrogate blocks
        const SURROGATES_START: u32 = 0xD800;
        let mut c = <u32 as Arbitrary<'a>>::arbitrary(u)? % CHAR_END;
        if let Some(c) = char::from_u32(c) {
            Ok(c)
        } else {
            // We found a surrogate, wrap and try again
            c -= SURROGATES_START;
            Ok(char::from_u32(c)
                .expect("Generated character should be valid! This is a bug in arbitrary-rs"))
        }
    }

    #[inline]
    fn size_hint(depth: usize) -> (usize, Option<usize>) {
        <u32 as Arbitrary<'a>>::size_hint(depth)
    }
}
