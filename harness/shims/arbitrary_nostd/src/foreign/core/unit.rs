use crate::{Arbitrary, Result, Unstructured};

impl<'a> Arbitrary<'a> for () {
    fn arbitrary(_: &mut Unstructured<'a>) -> Result<Self> {
        Ok(())
    }

    #[inline]
    fn size_hint(_depth: usize) -> (usize, Option<usize>) {
        (0, Some(0))
    }
}
