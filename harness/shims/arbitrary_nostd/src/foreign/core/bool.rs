use crate::{Arbitrary, Result, Unstructured};

/// Returns false, not an error, if this `Unstructured` [is empty][Unstructured::is_empty].
impl<'a> Arbitrary<'a> for bool {
    fn arbitrary(u: &mut Unstructured<'a>) -> Result<Self> {
        Ok(<u8 as Arbitrary<'a>>::arbitrary(u)? & 1 == 1)
    }

    #[inline]
    fn size_hint(depth: usize) -> (usize, Option<usize>) {
        <u8 as Arbitrary<'a>>::size_hint(depth)
    }
}
