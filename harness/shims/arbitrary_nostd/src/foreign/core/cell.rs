use {
    crate::{Arbitrary, MaxRecursionReached, Result, Unstructured},
    core::cell::{Cell, RefCell, UnsafeCell},
};

impl<'a, A> Arbitrary<'a> for Cell<A>
where
    A: Arbitrary<'a>,
{
    fn arbitrary(u: &mut Unstructured<'a>) -> Result<Self> {
        Arbitrary::arbitrary(u).map(Self::new)
    }

    #[inline]
    fn size_hint(depth: usize) -> (usize, Option<usize>) {
        Self::try_size_hint(depth).unwrap_or_default()
    }

    #[inline]
    fn try_size_hint(depth: usize) -> Result<(usize, Option<usize>), MaxRecursionReached> {
        <A as Arbitrary<'a>>::try_size_hint(depth)
    }
}

impl<'a, A> Arbitrary<'a> for RefCell<A>
where
    A: Arbitrary<'a>,
{
    fn arbitrary(u: &mut Unstructured<'a>) -> Result<Self> {
        Arbitrary::arbitrary(u).map(Self::new)
    }

    #[inline]
    fn size_hint(depth: usize) -> (usize, Option<usize>) {
        Self::try_size_hint(depth).unwrap_or_default()
    }

    #[inline]
    fn try_size_hint(depth: usize) -> Result<(usize, Option<usize>), MaxRecursionReached> {
        <A as Arbitrary<'a>>::try_size_hint(depth)
    }
}

impl<'a, A> Arbitrary<'a> for UnsafeCell<A>
where
    A: Arbitrary<'a>,
{
    fn arbitrary(u: &mut Unstructured<'a>) -> Result<Self> {
        Arbitrary::arbitrary(u).map(Self::new)
    }

    #[inline]
    fn size_hint(depth: usize) -> (usize, Option<usize>) {
        Self::try_size_hint(depth).unwrap_or_default()
    }

    #[inline]
    fn try_size_hint(depth: usize) -> Result<(usize, Option<usize>), MaxRecursionReached> {
        <A as Arbitrary<'a>>::try_size_hint(depth)
    }
}
