use crate::{size_hint, Arbitrary, Error, MaxRecursionReached, Unstructured};

impl<'a, T, E> Arbitrary<'a> for Result<T, E>
where
    T: Arbitrary<'a>,
    E: Arbitrary<'a>,
{
    fn arbitrary(u: &mut Unstructured<'a>) -> Result<Self, Error> {
        Ok(if <bool as Arbitrary<'a>>::arbitrary(u)? {
            Ok(<T as Arbitrary>::arbitrary(u)?)
        } else {
            Err(<E as Arbitrary>::arbitrary(u)?)
        })
    }

    #[inline]
    fn size_hint(depth: usize) -> (usize, Option<usize>) {
        Self::try_size_hint(depth).unwrap_or_default()
    }

    #[inline]
    fn try_size_hint(depth: usize) -> Result<(usize, Option<usize>), MaxRecursionReached> {
        Ok(size_hint::and(
            <bool as Arbitrary>::size_hint(depth),
            size_hint::or(
                <T as Arbitrary>::try_size_hint(depth)?,
                <E as Arbitrary>::try_size_hint(depth)?,
            ),
        ))
    }
}
