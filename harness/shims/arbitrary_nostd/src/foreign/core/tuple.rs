use crate::{size_hint, Arbitrary, MaxRecursionReached, Result, Unstructured};

macro_rules! arbitrary_tuple {
    () => {};
    ($last: ident $($xs: ident)*) => {
        arbitrary_tuple!($($xs)*);

        impl<'a, $($xs,)* $last> Arbitrary<'a> for ($($xs,)* $last,)
        where
            $($xs: Arbitrary<'a>,)*
            $last: Arbitrary<'a>,
        {
            fn arbitrary(u: &mut Unstructured<'a>) -> Result<Self> {
                Ok(($($xs::arbitrary(u)?,)* Arbitrary::arbitrary(u)?,))
            }

            #[allow(unused_mut, non_snake_case)]
            fn arbitrary_take_rest(mut u: Unstructured<'a>) -> Result<Self> {
                $(let $xs = $xs::arbitrary(&mut u)?;)*
                let $last = $last::arbitrary_take_rest(u)?;
                Ok(($($xs,)* $last,))
            }

            #[inline]
            fn size_hint(depth: usize) -> (usize, Option<usize>) {
                Self::try_size_hint(depth).unwrap_or_default()
            }
            #[inline]
            fn try_size_hint(depth: usize) -> Result<(usize, Option<usize>), MaxRecursionReached> {
                Ok(size_hint::and_all(&[
                    <$last as Arbitrary>::try_size_hint(depth)?,
                    $( <$xs as Arbitrary>::try_size_hint(depth)?),*
                ]))
            }
        }
    };
}
arbitrary_tuple!(A B C D E F G H I J K L M N O P Q R S T U V W X Y Z);
