use {
    crate::{Arbitrary, Result, Unstructured},
    core::str,
};

fn arbitrary_str<'a>(u: &mut Unstructured<'a>, size: usize) -> Result<&'a str> {
    match str::from_utf8(u.peek_bytes(size).unwrap()) {
        Ok(s) => {
            u.bytes(size).unwrap();
            Ok(s)
        }
        Err(e) => {
            let i = e.valid_up_to();
            let valid = u.bytes(i).unwrap();
            let s = unsafe {
                debug_assert!(str::from_utf8(valid).is_ok());
                str::from_utf8_unchecked(valid)
            };
            Ok(s)
        }
    }
}

impl<'a> Arbitrary<'a> for &'a str {
    fn arbitrary(u: &mut Unstructured<'a>) -> Result<Self> {
        let size = u.arbitrary_len::<u8>()?;
        arbitrary_str(u, size)
    }

    fn arbitrary_take_rest(mut u: Unstructured<'a>) -> Result<Self> {
        let size = u.len();
        arbitrary_str(&mut u, size)
    }

    #[inline]
    fn size_hint(_depth: usize) -> (usize, Option<usize>) {
        (0, None)
    }
}
