use crate::{size_hint, Arbitrary, MaxRecursionReached, Result, Unstructured};

/// Returns `None`, not an error, if this `Unstructured` [is empty][Unstructured::is_empty].
impl<'a, A> Arbitrary<'a> for Option<A>
where
    A: Arbitrary<'a>,
{
    fn arbitrary(u: &mut Unstructured<'a>) -> Result<Self> {
        Ok(if <bool as Arbitrary<'a>>::arbitrary(u)? {
            Some(Arbitrary::arbitrary(u)?)
        } else {
            None
        })
    }

    #[inline]
    fn size_hint(depth: usize) -> (usize, Option<usize>) {
        Self::try_size_hint(depth).unwrap_or_default()
    }

    #[inline]
    fn try_size_hint(depth: usize) -> Result<(usize, Option<usize>), MaxRecursionReached> {
        Ok(size_hint::and(
            <bool as Arbitrary>::try_size_hint(depth)?,
            size_hint::or((0, Some(0)), <A as Arbitrary>::try_size_hint(depth)?),
        ))
    }
}
