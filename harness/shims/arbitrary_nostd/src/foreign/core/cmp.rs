use {
    crate::{size_hint, Arbitrary, Result, Unstructured},
    core::cmp::Reverse,
};

impl<'a, A> Arbitrary<'a> for Reverse<A>
where
    A: Arbitrary<'a>,
{
    fn arbitrary(u: &mut Unstructured<'a>) -> Result<Self> {
        Arbitrary::arbitrary(u).map(Self)
    }

    #[inline]
    fn size_hint(depth: usize) -> (usize, Option<usize>) {
        Self::try_size_hint(depth).unwrap_or_default()
    }

    #[inline]
    fn try_size_hint(depth: usize) -> Result<(usize, Option<usize>), crate::MaxRecursionReached> {
        size_hint::try_recursion_guard(depth, <A as Arbitrary>::try_size_hint)
    }
}
