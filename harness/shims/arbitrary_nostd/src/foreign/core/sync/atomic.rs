use {
    crate::{Arbitrary, Result, Unstructured},
    core::sync::atomic::{AtomicBool, AtomicIsize, AtomicUsize},
};

/// Returns false, not an error, if this `Unstructured` [is empty][Unstructured::is_empty].
impl<'a> Arbitrary<'a> for AtomicBool {
    fn arbitrary(u: &mut Unstructured<'a>) -> Result<Self> {
        Arbitrary::arbitrary(u).map(Self::new)
    }

    #[inline]
    fn size_hint(depth: usize) -> (usize, Option<usize>) {
        <bool as Arbitrary<'a>>::size_hint(depth)
    }
}

/// Returns zero, not an error, if this `Unstructured` [is empty][Unstructured::is_empty].
impl<'a> Arbitrary<'a> for AtomicIsize {
    fn arbitrary(u: &mut Unstructured<'a>) -> Result<Self> {
        Arbitrary::arbitrary(u).map(Self::new)
    }

    #[inline]
    fn size_hint(depth: usize) -> (usize, Option<usize>) {
        <isize as Arbitrary<'a>>::size_hint(depth)
    }
}

/// Returns zero, not an error, if this `Unstructured` [is empty][Unstructured::is_empty].
impl<'a> Arbitrary<'a> for AtomicUsize {
    fn arbitrary(u: &mut Unstructured<'a>) -> Result<Self> {
        Arbitrary::arbitrary(u).map(Self::new)
    }

    #[inline]
    fn size_hint(depth: usize) -> (usize, Option<usize>) {
        <usize as Arbitrary<'a>>::size_hint(depth)
    }
}
