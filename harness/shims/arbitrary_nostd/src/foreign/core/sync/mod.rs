mod atomic;
