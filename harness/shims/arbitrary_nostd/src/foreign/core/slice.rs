use crate::{Arbitrary, Result, Unstructured};

impl<'a> Arbitrary<'a> for &'a [u8] {
    fn arbitrary(u: &mut Unstructured<'a>) -> Result<Self> {
        let len = u.arbitrary_len::<u8>()?;
        u.bytes(len)
    }

    fn arbitrary_take_rest(u: Unstructured<'a>) -> Result<Self> {
        Ok(u.take_rest())
    }

    #[inline]
    fn size_hint(_depth: usize) -> (usize, Option<usize>) {
        (0, None)
    }
}
