use {
    crate::{size_hint, Arbitrary, Result, Unstructured},
    core::{
        array,
        mem::{self, MaybeUninit},
        ptr,
    },
};

/// Helper to safely create arrays since the standard library doesn't
/// provide one yet. Shouldn't be necessary in the future.
struct ArrayGuard<T, const N: usize> {
    dst: *mut T,
    initialized: usize,
}

impl<T, const N: usize> Drop for ArrayGuard<T, N> {
    fn drop(&mut self) {
        debug_assert!(self.initialized <= N);
        let initialized_part = ptr::slice_from_raw_parts_mut(self.dst, self.initialized);
        unsafe {
            ptr::drop_in_place(initialized_part);
        }
    }
}

fn try_create_array<F, T, const N: usize>(mut cb: F) -> Result<[T; N]>
where
    F: FnMut(usize) -> Result<T>,
{
    let mut array: MaybeUninit<[T; N]> = MaybeUninit::uninit();
    let array_ptr = array.as_mut_ptr();
    let dst = array_ptr as _;
    let mut guard: ArrayGuard<T, N> = ArrayGuard {
        dst,
        initialized: 0,
    };
    unsafe {
        for (idx, value_ptr) in (*array.as_mut_ptr()).iter_mut().enumerate() {
            ptr::write(value_ptr, cb(idx)?);
            guard.initialized += 1;
        }
        mem::forget(guard);
        Ok(array.assume_init())
    }
}

impl<'a, T, const N: usize> Arbitrary<'a> for [T; N]
where
    T: Arbitrary<'a>,
{
    #[inline]
    fn arbitrary(u: &mut Unstructured<'a>) -> Result<Self> {
        try_create_array(|_| <T as Arbitrary<'a>>::arbitrary(u))
    }

    #[inline]
    fn arbitrary_take_rest(mut u: Unstructured<'a>) -> Result<Self> {
        let mut array = Self::arbitrary(&mut u)?;
        if let Some(last) = array.last_mut() {
            *last = Arbitrary::arbitrary_take_rest(u)?;
        }
        Ok(array)
    }

    #[inline]
    fn size_hint(depth: usize) -> (usize, Option<usize>) {
        Self::try_size_hint(depth).unwrap_or_default()
    }

    #[inline]
    fn try_size_hint(depth: usize) -> Result<(usize, Option<usize>), crate::MaxRecursionReached> {
        let hint = <T as Arbitrary>::try_size_hint(depth)?;
        Ok(size_hint::and_all(&array::from_fn::<_, N, _>(|_| hint)))
    }
}
