use {
    crate::{size_hint, Arbitrary, Result, Unstructured},
    core::time::Duration,
};

/// Returns zero, not an error, if this `Unstructured` [is empty][Unstructured::is_empty].
impl<'a> Arbitrary<'a> for Duration {
    fn arbitrary(u: &mut Unstructured<'a>) -> Result<Self> {
        Ok(Self::new(
            <u64 as Arbitrary>::arbitrary(u)?,
            u.int_in_range(0..=999_999_999)?,
        ))
    }

    #[inline]
    fn size_hint(depth: usize) -> (usize, Option<usize>) {
        size_hint::and(
            <u64 as Arbitrary>::size_hint(depth),
            <u32 as Arbitrary>::size_hint(depth),
        )
    }
}
