use {
    crate::{Arbitrary, Result, Unstructured},
    core::iter::{empty, Empty},
};

impl<'a, A> Arbitrary<'a> for Empty<A>
where
    A: Arbitrary<'a>,
{
    fn arbitrary(_: &mut Unstructured<'a>) -> Result<Self> {
        Ok(empty())
    }

    #[inline]
    fn size_hint(_depth: usize) -> (usize, Option<usize>) {
        (0, Some(0))
    }
}
