use {
    crate::{Arbitrary, Error, MaxRecursionReached, Result, Unstructured},
    core::{
        mem,
        num::{
            NonZeroI128, NonZeroI16, NonZeroI32, NonZeroI64, NonZeroI8, NonZeroIsize, NonZeroU128,
            NonZeroU16, NonZeroU32, NonZeroU64, NonZeroU8, NonZeroUsize, Wrapping,
        },
    },
};

macro_rules! impl_arbitrary_for_integers {
    ( $( $ty:ty; )* ) => {
        $(
            impl<'a> Arbitrary<'a> for $ty {
                fn arbitrary(u: &mut Unstructured<'a>) -> Result<Self> {
                    let mut buf = [0; mem::size_of::<$ty>()];
                    u.fill_buffer(&mut buf)?;
                    Ok(Self::from_le_bytes(buf))
                }

                #[inline]
                fn size_hint(_depth: usize) -> (usize, Option<usize>) {
                    let n = mem::size_of::<$ty>();
                    (n, Some(n))
                }

            }
        )*
    }
}

impl_arbitrary_for_integers! {
    u8;
    u16;
    u32;
    u64;
    u128;
    i8;
    i16;
    i32;
    i64;
    i128;
}

// Note: We forward Arbitrary for i/usize to i/u64 in order to simplify corpus
// compatibility between 32-bit and 64-bit builds. This introduces dead space in
// 32-bit builds but keeps the input layout independent of the build platform.
impl<'a> Arbitrary<'a> for usize {
    fn arbitrary(u: &mut Unstructured<'a>) -> Result<Self> {
        u.arbitrary::<u64>().map(|x| x as usize)
    }

    #[inline]
    fn size_hint(depth: usize) -> (usize, Option<usize>) {
        <u64 as Arbitrary>::size_hint(depth)
    }
}

impl<'a> Arbitrary<'a> for isize {
    fn arbitrary(u: &mut Unstructured<'a>) -> Result<Self> {
        u.arbitrary::<i64>().map(|x| x as isize)
    }

    #[inline]
    fn size_hint(depth: usize) -> (usize, Option<usize>) {
        <i64 as Arbitrary>::size_hint(depth)
    }
}

macro_rules! impl_arbitrary_for_floats {
    ( $( $ty:ident : $unsigned:ty; )* ) => {
        $(
            impl<'a> Arbitrary<'a> for $ty {
                fn arbitrary(u: &mut Unstructured<'a>) -> Result<Self> {
                    Ok(Self::from_bits(<$unsigned as Arbitrary<'a>>::arbitrary(u)?))
                }

                #[inline]
                fn size_hint(depth: usize) -> (usize, Option<usize>) {
                    <$unsigned as Arbitrary<'a>>::size_hint(depth)
                }
            }
        )*
    }
}

impl_arbitrary_for_floats! {
    f32: u32;
    f64: u64;
}

macro_rules! implement_nonzero_int {
    ($nonzero:ty, $int:ty) => {
        impl<'a> Arbitrary<'a> for $nonzero {
            fn arbitrary(u: &mut Unstructured<'a>) -> Result<Self> {
                match Self::new(<$int as Arbitrary<'a>>::arbitrary(u)?) {
                    Some(n) => Ok(n),
                    None => Err(Error::IncorrectFormat),
                }
            }

            #[inline]
            fn size_hint(depth: usize) -> (usize, Option<usize>) {
                <$int as Arbitrary<'a>>::size_hint(depth)
            }
        }
    };
}

implement_nonzero_int! { NonZeroI8, i8 }
implement_nonzero_int! { NonZeroI16, i16 }
implement_nonzero_int! { NonZeroI32, i32 }
implement_nonzero_int! { NonZeroI64, i64 }
implement_nonzero_int! { NonZeroI128, i128 }
implement_nonzero_int! { NonZeroIsize, isize }
implement_nonzero_int! { NonZeroU8, u8 }
implement_nonzero_int! { NonZeroU16, u16 }
implement_nonzero_int! { NonZeroU32, u32 }
implement_nonzero_int! { NonZeroU64, u64 }
implement_nonzero_int! { NonZeroU128, u128 }
implement_nonzero_int! { NonZeroUsize, usize }

impl<'a, A> Arbitrary<'a> for Wrapping<A>
where
    A: Arbitrary<'a>,
{
    fn arbitrary(u: &mut Unstructured<'a>) -> Result<Self> {
        Arbitrary::arbitrary(u).map(Wrapping)
    }

    #[inline]
    fn size_hint(depth: usize) -> (usize, Option<usize>) {
        Self::try_size_hint(depth).unwrap_or_default()
    }

    #[inline]
    fn try_size_hint(depth: usize) -> Result<(usize, Option<usize>), MaxRecursionReached> {
        <A as Arbitrary<'a>>::try_size_hint(depth)
    }
}
