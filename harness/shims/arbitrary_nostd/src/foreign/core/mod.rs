//! Implementations of [`Arbitrary`] for [`core`] types.
//!
//! [`Arbitrary`]: crate::Arbitrary

mod array;
mod bool;
mod cell;
mod char;
mod cmp;
mod iter;
mod marker;
mod num;
mod ops;
mod option;
mod result;
mod slice;
mod str;
mod sync;
mod time;
mod tuple;
mod unit;
