use {
    crate::{Arbitrary, Result, Unstructured},
    core::marker::{PhantomData, PhantomPinned},
};

impl<'a, A> Arbitrary<'a> for PhantomData<A>
where
    A: ?Sized,
{
    fn arbitrary(_: &mut Unstructured<'a>) -> Result<Self> {
        Ok(PhantomData)
    }

    #[inline]
    fn size_hint(_depth: usize) -> (usize, Option<usize>) {
        (0, Some(0))
    }
}

impl<'a> Arbitrary<'a> for PhantomPinned {
    fn arbitrary(_: &mut Unstructured<'a>) -> Result<Self> {
        Ok(PhantomPinned)
    }

    #[inline]
    fn size_hint(_depth: usize) -> (usize, Option<usize>) {
        (0, Some(0))
    }
}
