use {
    crate::{size_hint, Arbitrary, MaxRecursionReached, Result, Unstructured},
    core::{
        mem,
        ops::{Bound, Range, RangeBounds, RangeFrom, RangeInclusive, RangeTo, RangeToInclusive},
    },
};

macro_rules! impl_range {
    (
        $range:ty,
        $value_closure:expr,
        $value_ty:ty,
        $fun:ident($fun_closure:expr),
        $size_hint_closure:expr
    ) => {
        impl<'a, A> Arbitrary<'a> for $range
        where
            A: Arbitrary<'a> + Clone + PartialOrd,
        {
            fn arbitrary(u: &mut Unstructured<'a>) -> Result<Self> {
                let value: $value_ty = Arbitrary::arbitrary(u)?;
                Ok($fun(value, $fun_closure))
            }

            #[inline]
            fn size_hint(depth: usize) -> (usize, Option<usize>) {
                Self::try_size_hint(depth).unwrap_or_default()
            }

            #[inline]
            fn try_size_hint(depth: usize) -> Result<(usize, Option<usize>), MaxRecursionReached> {
                #[allow(clippy::redundant_closure_call)]
                $size_hint_closure(depth)
            }
        }
    };
}
impl_range!(
    Range<A>,
    |r: &Range<A>| (r.start.clone(), r.end.clone()),
    (A, A),
    bounded_range(|(a, b)| a..b),
    |depth| Ok(crate::size_hint::and(
        <A as Arbitrary>::try_size_hint(depth)?,
        <A as Arbitrary>::try_size_hint(depth)?,
    ))
);
impl_range!(
    RangeFrom<A>,
    |r: &RangeFrom<A>| r.start.clone(),
    A,
    unbounded_range(|a| a..),
    |depth| <A as Arbitrary>::try_size_hint(depth)
);
impl_range!(
    RangeInclusive<A>,
    |r: &RangeInclusive<A>| (r.start().clone(), r.end().clone()),
    (A, A),
    bounded_range(|(a, b)| a..=b),
    |depth| Ok(crate::size_hint::and(
        <A as Arbitrary>::try_size_hint(depth)?,
        <A as Arbitrary>::try_size_hint(depth)?,
    ))
);
impl_range!(
    RangeTo<A>,
    |r: &RangeTo<A>| r.end.clone(),
    A,
    unbounded_range(|b| ..b),
    |depth| <A as Arbitrary>::try_size_hint(depth)
);
impl_range!(
    RangeToInclusive<A>,
    |r: &RangeToInclusive<A>| r.end.clone(),
    A,
    unbounded_range(|b| ..=b),
    |depth| <A as Arbitrary>::try_size_hint(depth)
);

pub(crate) fn bounded_range<CB, I, R>(bounds: (I, I), cb: CB) -> R
where
    CB: Fn((I, I)) -> R,
    I: PartialOrd,
    R: RangeBounds<I>,
{
    let (mut start, mut end) = bounds;
    if start > end {
        mem::swap(&mut start, &mut end);
    }
    cb((start, end))
}

pub(crate) fn unbounded_range<CB, I, R>(bound: I, cb: CB) -> R
where
    CB: Fn(I) -> R,
    R: RangeBounds<I>,
{
    cb(bound)
}

impl<'a, A> Arbitrary<'a> for Bound<A>
where
    A: Arbitrary<'a>,
{
    fn arbitrary(u: &mut Unstructured<'a>) -> Result<Self> {
        match u.int_in_range::<u8>(0..=2)? {
            0 => Ok(Bound::Included(A::arbitrary(u)?)),
            1 => Ok(Bound::Excluded(A::arbitrary(u)?)),
            2 => Ok(Bound::Unbounded),
            _ => unreachable!(),
        }
    }

    #[inline]
    fn size_hint(depth: usize) -> (usize, Option<usize>) {
        Self::try_size_hint(depth).unwrap_or_default()
    }

    #[inline]
    fn try_size_hint(depth: usize) -> Result<(usize, Option<usize>), MaxRecursionReached> {
        Ok(size_hint::or(
            size_hint::and((1, Some(1)), A::try_size_hint(depth)?),
            (1, Some(1)),
        ))
    }
}
