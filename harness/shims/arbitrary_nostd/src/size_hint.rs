//! Utilities for working with and combining the results of
//! [`Arbitrary::size_hint`][crate::Arbitrary::size_hint].

pub(crate) const MAX_DEPTH: usize = 20;

/// Protects against potential infinite recursion when calculating size hints
/// due to indirect type recursion.
///
/// When the depth is not too deep, calls `f` with `depth + 1` to calculate the
/// size hint.
///
/// Otherwise, returns the default size hint: `(0, None)`.
///
/// <div class="warning">This method is deprecated. Users should instead implement <a href="../trait.Arbitrary.html#method.try_size_hint"><code>try_size_hint</code></a> and use <a href="fn.try_recursion_guard.html"><code>try_recursion_guard</code></a></div>
#[inline]
#[deprecated(note = "use `try_recursion_guard` instead")]
pub fn recursion_guard(
    depth: usize,
    f: impl FnOnce(usize) -> (usize, Option<usize>),
) -> (usize, Option<usize>) {
    if depth > MAX_DEPTH {
        (0, None)
    } else {
        f(depth + 1)
    }
}

/// Protects against potential infinite recursion when calculating size hints
/// due to indirect type recursion.
///
/// When the depth is not too deep, calls `f` with `depth + 1` to calculate the
/// size hint.
///
/// Otherwise, returns an error.
///
/// This should be used when implementing [`try_size_hint`](crate::Arbitrary::try_size_hint)
#[inline]
pub fn try_recursion_guard(
    depth: usize,
    f: impl FnOnce(usize) -> Result<(usize, Option<usize>), crate::MaxRecursionReached>,
) -> Result<(usize, Option<usize>), crate::MaxRecursionReached> {
    if depth > MAX_DEPTH {
        Err(crate::MaxRecursionReached {})
    } else {
        f(depth + 1)
    }
}

/// Take the sum of the `lhs` and `rhs` size hints.
#[inline]
pub fn and(lhs: (usize, Option<usize>), rhs: (usize, Option<usize>)) -> (usize, Option<usize>) {
    let lower = lhs.0 + rhs.0;
    let upper = lhs.1.and_then(|lhs| rhs.1.map(|rhs| lhs + rhs));
    (lower, upper)
}

/// Take the sum of all of the given size hints.
///
/// If `hints` is empty, returns `(0, Some(0))`, aka the size of consuming
/// nothing.
#[inline]
pub fn and_all(hints: &[(usize, Option<usize>)]) -> (usize, Option<usize>) {
    hints.iter().copied().fold((0, Some(0)), and)
}

/// Take the minimum of the lower bounds and maximum of the upper bounds in the
/// `lhs` and `rhs` size hints.
#[inline]
pub fn or(lhs: (usize, Option<usize>), rhs: (usize, Option<usize>)) -> (usize, Option<usize>) {
    let lower = core::cmp::min(lhs.0, rhs.0);
    let upper = lhs
        .1
        .and_then(|lhs| rhs.1.map(|rhs| core::cmp::max(lhs, rhs)));
    (lower, upper)
}

/// Take the maximum of the `lhs` and `rhs` size hints.
///
/// If `hints` is empty, returns `(0, Some(0))`, aka the size of consuming
/// nothing.
#[inline]
pub fn or_all(hints: &[(usize, Option<usize>)]) -> (usize, Option<usize>) {
    if let Some(head) = hints.first().copied() {
        hints[1..].iter().copied().fold(head, or)
    } else {
        (0, Some(0))
    }
}

#[cfg(test)]
mod tests {
    #[test]
    fn and() {
        assert_eq!((5, Some(5)), super::and((2, Some(2)), (3, Some(3))));
        assert_eq!((5, None), super::and((2, Some(2)), (3, None)));
        assert_eq!((5, None), super::and((2, None), (3, Some(3))));
        assert_eq!((5, None), super::and((2, None), (3, None)));
    }

    #[test]
    fn or() {
        assert_eq!((2, Some(3)), super::or((2, Some(2)), (3, Some(3))));
        assert_eq!((2, None), super::or((2, Some(2)), (3, None)));
        assert_eq!((2, None), super::or((2, None), (3, Some(3))));
        assert_eq!((2, None), super::or((2, None), (3, None)));
    }

    #[test]
    fn and_all() {
        assert_eq!((0, Some(0)), super::and_all(&[]));
        assert_eq!(
            (7, Some(7)),
            super::and_all(&[(1, Some(1)), (2, Some(2)), (4, Some(4))])
        );
        assert_eq!(
            (7, None),
            super::and_all(&[(1, Some(1)), (2, Some(2)), (4, None)])
        );
        assert_eq!(
            (7, None),
            super::and_all(&[(1, Some(1)), (2, None), (4, Some(4))])
        );
        assert_eq!(
            (7, None),
            super::and_all(&[(1, None), (2, Some(2)), (4, Some(4))])
        );
    }

    #[test]
    fn or_all() {
        assert_eq!((0, Some(0)), super::or_all(&[]));
        assert_eq!(
            (1, Some(4)),
            super::or_all(&[(1, Some(1)), (2, Some(2)), (4, Some(4))])
        );
        assert_eq!(
            (1, None),
            super::or_all(&[(1, Some(1)), (2, Some(2)), (4, None)])
        );
        assert_eq!(
            (1, None),
            super::or_all(&[(1, Some(1)), (2, None), (4, Some(4))])
        );
        assert_eq!(
            (1, None),
            super::or_all(&[(1, None), (2, Some(2)), (4, Some(4))])
        );
    }
}
