// pre-1.81 code paths: the upstream build script is NOT run, so ERROR_IN_CORE stays unset
fn main() {
    println!("cargo:rustc-check-cfg=cfg(nutype_verif)");
    println!("cargo:rustc-check-cfg=cfg(ERROR_IN_CORE)");
    println!("cargo:rustc-cfg=nutype_verif");
    println!("cargo:rerun-if-changed=build.rs");
}
