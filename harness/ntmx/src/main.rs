//! MX – macro explorer: nutype_macros compiled as an ordinary library (verification hook), the
//! expansion called in-process over the bounded declaration grammar.

use ntcore::admit::{self, Features, GuardShape, Verdict};
use ntcore::domain::Tier;
use ntcore::grammar;
use ntcore::model::*;
use ntcore::render;
use proc_macro2::{TokenStream, TokenTree};
use rayon::prelude::*;
use serde_json::json;
use std::collections::BTreeMap;
use std::str::FromStr;

#[derive(Clone, Copy, Debug, PartialEq, Eq)]
pub enum Shim {
    All,
    None,
    NoStd,
    Pre181Std,
    Pre181NoStd,
    /// std + exactly one of the optional features
    OnlySerde,
    OnlyArbitrary,
    OnlyNewUnchecked,
    OnlySchemars,
    OnlyRegex,
}

pub fn expand_ts(shim: Shim, attrs: TokenStream, item: TokenStream) -> Result<TokenStream, String> {
    let r = std::panic::catch_unwind(|| match shim {
        Shim::All => nm_all::__verif_expand(attrs, item),
        Shim::None => nm_none::__verif_expand(attrs, item),
        Shim::NoStd => nm_nostd::__verif_expand(attrs, item),
        Shim::Pre181Std => nm_pre181std::__verif_expand(attrs, item),
        Shim::Pre181NoStd => nm_pre181nostd::__verif_expand(attrs, item),
        Shim::OnlySerde => nm_only_serde::__verif_expand(attrs, item),
        Shim::OnlyArbitrary => nm_only_arbitrary::__verif_expand(attrs, item),
        Shim::OnlyNewUnchecked => nm_only_new_unchecked::__verif_expand(attrs, item),
        Shim::OnlySchemars => nm_only_schemars08::__verif_expand(attrs, item),
        Shim::OnlyRegex => nm_only_regex::__verif_expand(attrs, item),
    });
    match r {
        Ok(Ok(ts)) => Ok(ts),
        Ok(Err(e)) => Err(e.to_string()),
        Err(p) => Err(format!("MACRO PANIC: {}", p.downcast_ref::<String>().cloned().or_else(|| p.downcast_ref::<&str>().map(|s| s.to_string())).unwrap_or_default())),
    }
}

pub fn expand(shim: Shim, attrs: &str, item: &str) -> Result<TokenStream, String> {
    let a = TokenStream::from_str(attrs).map_err(|e| format!("LEX: {e}"))?;
    let i = TokenStream::from_str(item).map_err(|e| format!("LEX: {e}"))?;
    expand_ts(shim, a, i)
}

#[derive(Default)]
struct Rep {
    evaluations: u64,
    states: u64,
    transitions: u64,
    nontrivial: u64,
    hist: BTreeMap<String, u64>,
    samples: Vec<serde_json::Value>,
    violations: Vec<serde_json::Value>,
    violation_count: u64,
    notes: Vec<String>,
    machinery: Vec<String>,
    bounds: BTreeMap<String, serde_json::Value>,
    exhaustive: bool,
}
impl Rep {
    fn new() -> Rep {
        Rep { exhaustive: true, ..Default::default() }
    }
    fn h(&mut self, k: &str, n: u64) {
        *self.hist.entry(k.to_string()).or_insert(0) += n;
    }
    fn violate(&mut self, prop: &str, decl: String, shape: String, class: &str, expected: String, observed: String) {
        self.violation_count += 1;
        let same = self.violations.iter().filter(|v| v["class"] == class && v["shape"] == shape).count();
        if same < 3 && self.violations.len() < 400 {
            self.violations.push(json!({"property": prop, "subject": -1, "decl": decl.clone(), "shape": shape, "entry": "macro expansion (in-process)", "input": decl, "expected": expected, "observed": observed, "class": class}));
        }
    }
    fn merge(&mut self, o: Rep) {
        self.evaluations += o.evaluations;
        self.states += o.states;
        self.transitions += o.transitions;
        self.nontrivial += o.nontrivial;
        for (k, v) in o.hist {
            *self.hist.entry(k).or_insert(0) += v;
        }
        for s in o.samples {
            if self.samples.len() < 6 {
                self.samples.push(s);
            }
        }
        self.violation_count += o.violation_count;
        for v in o.violations {
            if self.violations.len() < 400 {
                self.violations.push(v);
            }
        }
        self.notes.extend(o.notes);
        self.machinery.extend(o.machinery);
        self.exhaustive &= o.exhaustive;
    }
    fn to_json(&self, prop: &str, tier: Tier) -> serde_json::Value {
        json!({"property": prop, "tier": tier.name(), "subjects": 0, "evaluations": self.evaluations, "states": self.states, "transitions": self.transitions,
            "traces_validated_against_impl": 0, "distinct_nontrivial": self.nontrivial, "histogram": self.hist, "samples": self.samples, "violations": self.violations,
            "violation_count": self.violation_count, "exhaustive": self.exhaustive, "bounds": self.bounds, "notes": self.notes, "machinery_errors": self.machinery})
    }
}

fn fam_item(fam: Family) -> (&'static str, &'static str) {
    match fam {
        Family::Int => ("i32", "pub struct X(i32);"),
        Family::Float => ("f64", "pub struct X(f64);"),
        Family::Str => ("String", "pub struct X(String);"),
        Family::Any => ("Vec<i64>", "pub struct X(Vec<i64>);"),
    }
}

fn guard_attr(fam: Family, g: GuardShape) -> Option<&'static str> {
    Some(match (fam, g) {
        (_, GuardShape::None) => "",
        (Family::Int, GuardShape::Std) => "validate(greater = 1, less = 9),",
        (Family::Int, GuardShape::StdPred) => "validate(greater = 1, predicate = is_ok),",
        (Family::Int, GuardShape::Custom) => "validate(with = check, error = MyErr),",
        (Family::Float, GuardShape::Std) => "validate(greater = 1.0, less = 9.0),",
        (Family::Float, GuardShape::StdFinite) => "validate(finite, less = 9.0),",
        (Family::Float, GuardShape::StdPred) => "validate(predicate = is_ok, less = 9.0),",
        (Family::Float, GuardShape::StdFinitePred) => "validate(predicate = is_ok, finite),",
        (Family::Float, GuardShape::Custom) => "validate(with = check, error = MyErr),",
        (Family::Str, GuardShape::Std) => "validate(not_empty, len_char_max = 9),",
        (Family::Str, GuardShape::StdPred) => "validate(not_empty, predicate = is_ok),",
        (Family::Str, GuardShape::Custom) => "validate(with = check, error = MyErr),",
        (Family::Any, GuardShape::StdPred) => "validate(predicate = is_ok),",
        (Family::Any, GuardShape::Custom) => "validate(with = check, error = MyErr),",
        _ => return None,
    })
}

/// further spellings with the same guard shape (generators and checks branch on exactly which validators
/// are present: one-sided bounds, bounds without `finite`, sanitizers next to validators, ...)
fn guard_variants(fam: Family, g: GuardShape) -> Vec<&'static str> {
    let mut v: Vec<&'static str> = guard_attr(fam, g).into_iter().collect();
    match (fam, g) {
        (Family::Int, GuardShape::Std) => v.extend(["validate(greater = 1),", "validate(less_or_equal = 100),"]),
        (Family::Int, GuardShape::None) => v.extend(["sanitize(with = clamp),"]),
        (Family::Float, GuardShape::Std) => v.extend(["validate(greater_or_equal = 0.0),", "validate(less = 100.0),"]),
        (Family::Float, GuardShape::StdFinite) => v.extend(["validate(finite),", "validate(greater = 0.0, finite),", "validate(finite, greater_or_equal = 0.0, less = 1.0),"]),
        (Family::Float, GuardShape::None) => v.extend(["sanitize(with = clamp),"]),
        (Family::Str, GuardShape::Std) => v.extend(["validate(len_char_min = 1),", "validate(len_char_max = 9),", "sanitize(trim, lowercase), validate(len_char_min = 1, len_char_max = 9),"]),
        (Family::Str, GuardShape::None) => v.extend(["sanitize(trim),", "sanitize(uppercase),"]),
        (Family::Str, GuardShape::StdPred) => v.extend(["sanitize(trim), validate(predicate = is_ok, len_char_max = 9),"]),
        (Family::Any, GuardShape::None) => v.extend(["sanitize(with = clamp),"]),
        _ => {}
    }
    v
}

fn default_attr(fam: Family) -> &'static str {
    match fam {
        Family::Int => "default = 5,",
        Family::Float => "default = 5.0,",
        Family::Str => "default = \"abc\",",
        Family::Any => "default = vec![1],",
    }
}

const SHAPES: [GuardShape; 6] = [GuardShape::None, GuardShape::Std, GuardShape::StdFinite, GuardShape::StdPred, GuardShape::StdFinitePred, GuardShape::Custom];
const FAMILIES: [Family; 4] = [Family::Int, Family::Float, Family::Str, Family::Any];

fn subset_of(mask: u32) -> Vec<Tr> {
    (0..22).filter(|b| mask & (1 << b) != 0).map(|b| ALL_TRAITS[b]).collect()
}

/// build the attribute token stream for (guard, derive mask, default) from pre-lexed pieces
struct Pieces {
    guard: TokenStream,
    default: TokenStream,
    traits: Vec<TokenStream>,
    item: TokenStream,
}

fn attr_for(p: &Pieces, mask: u32, with_default: bool) -> TokenStream {
    let mut ts = TokenStream::new();
    ts.extend(p.guard.clone());
    if with_default {
        ts.extend(p.default.clone());
    }
    let mut inner = TokenStream::new();
    for b in 0..22 {
        if mask & (1 << b) != 0 {
            inner.extend(p.traits[b].clone());
            inner.extend(TokenStream::from_str(",").unwrap());
        }
    }
    ts.extend([TokenTree::Ident(proc_macro2::Ident::new("derive", proc_macro2::Span::call_site())), TokenTree::Group(proc_macro2::Group::new(proc_macro2::Delimiter::Parenthesis, inner))]);
    ts
}

fn check_derive_space(shim: Shim, feats: Features, masks: &[u32], tier: Tier, label: &str, only: Option<(Family, GuardShape)>) -> Rep {
    let mut rep = Rep::new();
    for fam in FAMILIES {
        for g in SHAPES {
            if let Some((of, og)) = only {
                if of != fam || og != g {
                    continue;
                }
            }
            if guard_attr(fam, g).is_none() {
                continue;
            }
            let (_ty, item) = fam_item(fam);
            for (gi, ga) in guard_variants(fam, g).into_iter().enumerate() {
            for with_default in [false, true] {
                if only.is_some() && (!with_default || gi > 0) {
                    continue;
                }
                let parts: Vec<Rep> = masks
                    .par_chunks(128)
                    .map(|chunk| {
                        let pieces = Pieces { guard: TokenStream::from_str(ga).unwrap(), default: TokenStream::from_str(default_attr(fam)).unwrap(), traits: ALL_TRAITS.iter().map(|t| TokenStream::from_str(t.name()).unwrap()).collect(), item: TokenStream::from_str(item).unwrap() };
                        let mut r = Rep::new();
                        for &mask in chunk {
                            let set = subset_of(mask);
                            let v = admit::derive_verdict(fam, g, &set, with_default, false, feats);
                            let attrs = attr_for(&pieces, mask, with_default);
                            let res = expand_ts(shim, attrs.clone(), pieces.item.clone());
                            r.evaluations += 1;
                            r.transitions += 1;
                            let shape = format!("{label} {fam:?} {g:?} default={with_default}");
                            match (&v, &res) {
                                (_, Err(m)) if m.starts_with("MACRO PANIC") => r.violate("C08", format!("#[nutype({attrs})] {item}"), shape, "macro-panics", "a verdict".into(), m.clone()),
                                (Verdict::MacroMustReject(c), Ok(_)) => r.violate("C08", format!("#[nutype({attrs})] {item}"), shape, "accepted-but-must-reject", format!("macro refuses ({c})"), "expansion succeeded".into()),
                                (Verdict::MustAccept, Err(m)) => r.violate("C08", format!("#[nutype({attrs})] {item}"), shape, "rejected-but-must-accept", "macro accepts".into(), m.lines().next().unwrap_or("").to_string()),
                                _ => {}
                            }
                            match &v {
                                Verdict::MustAccept => r.h("MustAccept", 1),
                                Verdict::MacroMustReject(c) => {
                                    r.nontrivial += 1;
                                    r.h(&format!("MacroMustReject:{c}"), 1)
                                }
                                Verdict::MustReject(c) => {
                                    r.nontrivial += 1;
                                    r.h(&format!("MustReject:{c}:macro-{}", if res.is_ok() { "accepts(rustc decides)" } else { "rejects" }), 1)
                                }
                                Verdict::Either(c) => {
                                    r.nontrivial += 1;
                                    r.h(&format!("Either:{c}"), 1)
                                }
                            }
                        }
                        r
                    })
                    .collect();
                for p in parts {
                    rep.merge(p);
                }
                rep.states += 1;
            }
            }
        }
    }
    let _ = tier;
    rep
}

fn masks_upto(k: u32) -> Vec<u32> {
    (0u32..(1 << 22)).filter(|m| m.count_ones() <= k).collect()
}

fn c08(tier: Tier) -> Rep {
    let mut rep = Rep::new();
    // (1) derive-subset space
    let masks: Vec<u32> = match tier {
        Tier::Quick => masks_upto(3),
        Tier::Thorough => masks_upto(5),
    };
    rep.bounds.insert("derive_subsets".into(), json!(if tier == Tier::Quick { "all subsets of the 22 trait names of size <= 3, per (family, guard shape, default present/absent)" } else { "all subsets of size <= 5 per (family, guard shape, default present/absent) + ALL 2^22 subsets for 5 designated (family, guard shape) pairs" }));
    rep.merge(check_derive_space(Shim::All, Features::ALL, &masks, tier, "features=all", None));
    if tier == Tier::Thorough {
        let all: Vec<u32> = (0u32..(1 << 22)).collect();
        for pair in [(Family::Int, GuardShape::Std), (Family::Float, GuardShape::StdFinite), (Family::Float, GuardShape::Std), (Family::Str, GuardShape::None), (Family::Any, GuardShape::StdPred)] {
            rep.merge(check_derive_space(Shim::All, Features::ALL, &all, tier, "features=all, all 2^22 subsets", Some(pair)));
        }
    }
    let small = masks_upto(2);
    rep.merge(check_derive_space(Shim::None, Features::NONE, &small, tier, "features=none", None));
    rep.merge(check_derive_space(Shim::NoStd, Features::NOSTD, &small, tier, "features=serde+arbitrary,no-std", None));
    // exactly one optional feature on: a gate wired to the wrong feature shows up as a derive that is granted without
    // its own feature, or refused although its feature is on
    for (shim, feats, label) in [
        (Shim::OnlySerde, Features { serde: true, ..Features::NONE }, "features=serde only"),
        (Shim::OnlyArbitrary, Features { arbitrary: true, ..Features::NONE }, "features=arbitrary only"),
        (Shim::OnlyNewUnchecked, Features { new_unchecked: true, ..Features::NONE }, "features=new_unchecked only"),
        (Shim::OnlySchemars, Features { schemars08: true, ..Features::NONE }, "features=schemars08 only"),
        (Shim::OnlyRegex, Features { regex: true, ..Features::NONE }, "features=regex only"),
    ] {
        rep.merge(check_derive_space(shim, feats, &small, tier, label, None));
    }
    // (2) literal bounds in every relative position for every numeric type
    let kinds: [(&str, bool); 2] = [("greater", true), ("greater_or_equal", false)];
    let ukinds: [(&str, bool); 2] = [("less", true), ("less_or_equal", false)];
    let mut n_b = 0u64;
    for t in ALL_INT {
        let (Val::I(_) | Val::U(_), _) = (t.min(), 0) else { unreachable!() };
        let as_i = |v: Val| -> i128 {
            match v {
                Val::I(x) => x,
                Val::U(x) => x.min(i128::MAX as u128) as i128,
                _ => 0,
            }
        };
        let (mn, mx) = (as_i(t.min()), as_i(t.max()));
        let mut pos: Vec<i128> = vec![mn, mn.saturating_add(1), -1, 0, 1, 64, mx.saturating_sub(1), mx];
        pos.retain(|p| *p >= mn && *p <= mx);
        pos.dedup();
        for (lk, lx) in kinds {
            for (uk, ux) in ukinds {
                for &lo in &pos {
                    for &up in &pos {
                        for swap in [false, true] {
                            let a = format!("{lk} = {lo}");
                            let b = format!("{uk} = {up}");
                            let attrs = if swap { format!("validate({b}, {a})") } else { format!("validate({a}, {b})") };
                            let item = format!("pub struct X({});", t.name());
                            let contradictory = lo > up || (lo == up && (lx || ux));
                            let res = expand(Shim::All, &attrs, &item);
                            rep.evaluations += 1;
                            rep.transitions += 1;
                            n_b += 1;
                            if contradictory {
                                rep.nontrivial += 1;
                            }
                            match (contradictory, &res) {
                                (true, Ok(_)) => rep.violate("C08", format!("#[nutype({attrs})] {item}"), format!("literal-bounds {lk}/{uk}"), "accepted-but-must-reject", "macro refuses literal bounds that exclude each other".into(), "expansion succeeded".into()),
                                (false, Err(m)) => rep.violate("C08", format!("#[nutype({attrs})] {item}"), format!("literal-bounds {lk}/{uk}"), "rejected-but-must-accept", "macro accepts consistent literal bounds".into(), m.lines().next().unwrap_or("").to_string()),
                                _ => {}
                            }
                        }
                    }
                }
            }
        }
    }
    for ty in ["f32", "f64"] {
        let pos = ["-3.4e38", "-1.5", "-0.0", "0.0", "1e-40", "0.1", "1.0", "1.0000001", "64.0", "3.4e38"];
        let val = |s: &str| -> f64 { s.parse::<f64>().unwrap() };
        for (lk, lx) in kinds {
            for (uk, ux) in ukinds {
                for lo in pos {
                    for up in pos {
                        let attrs = format!("validate({lk} = {lo}, {uk} = {up})");
                        let item = format!("pub struct X({ty});");
                        let (l, u) = if ty == "f32" { (val(lo) as f32 as f64, val(up) as f32 as f64) } else { (val(lo), val(up)) };
                        let contradictory = l > u || (l == u && (lx || ux));
                        let res = expand(Shim::All, &attrs, &item);
                        rep.evaluations += 1;
                        rep.transitions += 1;
                        n_b += 1;
                        if contradictory {
                            rep.nontrivial += 1;
                        }
                        match (contradictory, &res) {
                            (true, Ok(_)) => rep.violate("C08", format!("#[nutype({attrs})] {item}"), format!("literal-bounds {lk}/{uk}"), "accepted-but-must-reject", "macro refuses literal bounds that exclude each other".into(), "expansion succeeded".into()),
                            (false, Err(m)) => rep.violate("C08", format!("#[nutype({attrs})] {item}"), format!("literal-bounds {lk}/{uk}"), "rejected-but-must-accept", "macro accepts consistent literal bounds".into(), m.lines().next().unwrap_or("").to_string()),
                            _ => {}
                        }
                    }
                }
            }
        }
    }
    rep.h("literal-bound-position-declarations", n_b);
    // len_char_min / len_char_max
    for mn in 0..6u32 {
        for mx in 0..6u32 {
            for swap in [false, true] {
                let attrs = if swap { format!("validate(len_char_max = {mx}, len_char_min = {mn})") } else { format!("validate(len_char_min = {mn}, len_char_max = {mx})") };
                let res = expand(Shim::All, &attrs, "pub struct X(String);");
                rep.evaluations += 1;
                rep.transitions += 1;
                match (mn > mx, &res) {
                    (true, Ok(_)) => rep.violate("C08", format!("#[nutype({attrs})] pub struct X(String);"), "literal-bounds len".into(), "accepted-but-must-reject", "macro refuses len_char_min > len_char_max".into(), "expansion succeeded".into()),
                    (false, Err(m)) => rep.violate("C08", format!("#[nutype({attrs})] pub struct X(String);"), "literal-bounds len".into(), "rejected-but-must-accept", "macro accepts".into(), m.clone()),
                    _ => {}
                }
            }
        }
    }
    // (3) the runtime pool is the MustAccept witness set: the macro must accept every one of them
    for s in grammar::rt_subjects(tier) {
        if let Some(src) = render::render(&s.decl) {
            let res = expand(Shim::All, &src.attr, &src.item);
            rep.evaluations += 1;
            rep.transitions += 1;
            rep.states += 1;
            if let Err(m) = res {
                rep.violate("C08", src.text(), shape(&s.decl), "rejected-but-must-accept", "macro accepts".into(), m);
            }
        }
    }
    rep.samples.push(json!({"declaration": "#[nutype(validate(finite, less = 9.0), derive(PartialEq, Eq, Ord))] pub struct X(f64);", "ref": format!("{:?}", admit::derive_verdict(Family::Float, GuardShape::StdFinite, &[Tr::PartialEq, Tr::Eq, Tr::Ord], false, false, Features::ALL)), "macro": expand(Shim::All, "validate(finite, less = 9.0), derive(PartialEq, Eq, Ord)", "pub struct X(f64);").err()}));
    rep
}

// ------------------------------------------------------------------------------------------------
// C12, permission part: `Eq` / `Ord` on a float newtype is only granted together with `finite`

fn c12(tier: Tier) -> Rep {
    let mut rep = Rep::new();
    let eq_bit = ALL_TRAITS.iter().position(|t| *t == Tr::Eq).unwrap();
    let ord_bit = ALL_TRAITS.iter().position(|t| *t == Tr::Ord).unwrap();
    let k = if tier == Tier::Quick { 4 } else { 6 };
    let masks: Vec<u32> = masks_upto(k).into_iter().filter(|m| m & (1 << eq_bit) != 0 || m & (1 << ord_bit) != 0).collect();
    // every way of writing a float declaration WITHOUT `finite` (no validation, bounds, predicate, custom
    // validation; f32 and f64; with a NaN-removing custom sanitizer) x every derive set containing Eq or Ord
    let guards: [&str; 7] = ["", "validate(greater = 1.0, less = 9.0),", "validate(greater_or_equal = 0.0),", "validate(predicate = is_ok, less = 9.0),", "validate(predicate = |v| v.is_finite()),", "validate(with = check, error = MyErr),", "sanitize(with = nan_to_zero), validate(less_or_equal = 1.0),"];
    for item in ["pub struct X(f64);", "pub struct X(f32);"] {
        for ga in guards {
            for with_default in [false, true] {
                let parts: Vec<Rep> = masks
                    .par_chunks(128)
                    .map(|chunk| {
                        let pieces = Pieces { guard: TokenStream::from_str(ga).unwrap(), default: TokenStream::from_str(default_attr(Family::Float)).unwrap(), traits: ALL_TRAITS.iter().map(|t| TokenStream::from_str(t.name()).unwrap()).collect(), item: TokenStream::from_str(item).unwrap() };
                        let ctl_pieces = Pieces { guard: TokenStream::from_str("validate(finite, less = 9.0),").unwrap(), default: TokenStream::from_str(default_attr(Family::Float)).unwrap(), traits: ALL_TRAITS.iter().map(|t| TokenStream::from_str(t.name()).unwrap()).collect(), item: TokenStream::from_str(item).unwrap() };
                        let mut r = Rep::new();
                        for &mask in chunk {
                            let attrs = attr_for(&pieces, mask, with_default);
                            let res = expand_ts(Shim::All, attrs.clone(), pieces.item.clone());
                            r.evaluations += 1;
                            r.transitions += 1;
                            // non-vacuity: the same derive set IS granted once `finite` is declared
                            let ctl = expand_ts(Shim::All, attr_for(&ctl_pieces, mask, with_default), pieces.item.clone());
                            if ctl.is_ok() {
                                r.nontrivial += 1;
                                r.h("derive-set-granted-with-finite", 1);
                            }
                            match res {
                                Ok(_) => r.violate("C12", format!("#[nutype({attrs})] {item}"), format!("float without finite: {ga}"), "eq-or-ord-granted-without-finite", "the macro refuses Eq / Ord on a float newtype that does not declare `finite` (NaN would be obtainable)".into(), "expansion succeeded".into()),
                                Err(m) if m.starts_with("MACRO PANIC") => r.violate("C12", format!("#[nutype({attrs})] {item}"), format!("float without finite: {ga}"), "macro-panics", "a refusal".into(), m),
                                Err(_) => r.h("refused", 1),
                            }
                        }
                        r
                    })
                    .collect();
                for p in parts {
                    rep.merge(p);
                }
                rep.states += 1;
            }
        }
    }
    // "no NaN or infinite value is obtainable through any safe entry point": the structural rules of C05 applied to the
    // Eq/Ord float declarations themselves (every safe function that builds the type runs the guards; `new_unchecked`
    // only with flag + feature and `unsafe`; no mutable access)
    for item_ty in ["f64", "f32"] {
        for ga in ["validate(finite),", "validate(finite, greater_or_equal = 0.0, less = 9.0),", "sanitize(with = clamp), validate(finite),"] {
            for nu in [false, true] {
                for extra in ["PartialEq, Eq, PartialOrd, Ord", "PartialEq, Eq, PartialOrd, Ord, FromStr, TryFrom, Into, Serialize, Deserialize, Default, Clone, Copy, Debug, Display, AsRef, Deref, Borrow", "PartialEq, Eq, Arbitrary"] {
                    if extra.contains("Arbitrary") && ga.contains("sanitize") {
                        continue;
                    }
                    let attr = format!("{ga} default = 5.0, derive({extra}){}", if nu { ", new_unchecked" } else { "" });
                    let item = format!("pub struct X({item_ty});");
                    rep.evaluations += 1;
                    rep.transitions += 1;
                    match expand(Shim::All, &attr, &item) {
                        Ok(ts) => {
                            rep.states += 1;
                            rep.nontrivial += 1;
                            rep.h("eq-ord-expansions-inspected", 1);
                            for (class, detail) in structural::check(&ts, "X", nu, Vis::Pub) {
                                rep.violate("C12", format!("#[nutype({attr})] {item}"), "structural".into(), &format!("safe-entry-point:{class}"), "every safe way to obtain the value runs the `finite` guard".into(), detail);
                            }
                        }
                        Err(m) => rep.machinery.push(format!("C12 structural: declaration expected to expand: {attr}: {m}")),
                    }
                }
            }
        }
    }
    rep.bounds.insert("derive_subsets".into(), json!(format!("all subsets of the 22 trait names of size <= {k} that contain Eq or Ord ({} sets) x 7 finite-less guard spellings x f32/f64 x default present/absent", masks.len())));
    rep
}

// ------------------------------------------------------------------------------------------------
// C05 structural invariant

mod structural;

fn decl_space(tier: Tier) -> Vec<(String, String, String, bool, Vis)> {
    // (attr, item, type name, new_unchecked flag, declared visibility)
    let mut out = vec![];
    for s in grammar::rt_subjects(tier) {
        if let Some(src) = render::render(&s.decl) {
            out.push((src.attr.clone(), src.item.clone(), s.decl.name.clone(), s.decl.new_unchecked, s.decl.vis));
        }
    }
    // derive subsets (size <= 2 and all-derivable) x guard shapes x new_unchecked x visibility
    let masks = masks_upto(if tier == Tier::Quick { 1 } else { 2 });
    for fam in FAMILIES {
        for g in SHAPES {
            let Some(ga) = guard_attr(fam, g) else { continue };
            let (_ty, item) = fam_item(fam);
            for (k, &mask) in masks.iter().enumerate() {
                let set = subset_of(mask);
                let names: Vec<&str> = set.iter().map(|t| t.name()).collect();
                let nu = k % 2 == 0;
                // every declared visibility for every derive set (each generated re-export must carry exactly it)
                for vis in [Vis::Pub, Vis::Private, Vis::PubCrate, Vis::PubSuper] {
                    let item = item.replacen("pub ", vis.src(), 1);
                    // with and without a `default = ..` attribute (a derive the macro would hand through to
                    // `#[derive]` untouched is only visible when it is NOT refused for another reason)
                    for da in [default_attr(fam), ""] {
                        let attr = format!("{ga} {da} derive({}){}", names.join(", "), if nu { ", new_unchecked" } else { "" });
                        out.push((attr, item.clone(), "X".into(), nu, vis));
                    }
                }
            }
        }
    }
    out
}

fn c05(tier: Tier) -> Rep {
    let mut rep = Rep::new();
    let space = decl_space(tier);
    for (shim, feat_nu) in [(Shim::All, true), (Shim::None, false), (Shim::NoStd, false)] {
        let parts: Vec<Rep> = space
            .par_iter()
            .map(|(attr, item, name, nu, vis)| {
                let mut r = Rep::new();
                r.evaluations += 1;
                r.transitions += 1;
                match expand(shim, attr, item) {
                    Err(m) => {
                        if *nu && !feat_nu && !m.contains("new_unchecked") && shim == Shim::None && !m.contains("feature") {
                            // rejected for another reason – fine for C05
                        }
                        r.h("rejected-by-macro", 1);
                        // flag without feature must be refused: that is the only acceptable outcome
                    }
                    Ok(ts) => {
                        r.states += 1;
                        r.nontrivial += 1;
                        if *nu && !feat_nu {
                            r.violate("C05", format!("#[nutype({attr})] {item}"), format!("{shim:?}"), "new_unchecked-without-feature", "declaration with the new_unchecked flag is refused when the crate feature is off".into(), "expansion succeeded".into());
                        }
                        let problems = structural::check(&ts, name, *nu && feat_nu, *vis);
                        r.h("expansions-inspected", 1);
                        for (class, detail) in problems {
                            r.violate("C05", format!("#[nutype({attr})] {item}"), format!("{shim:?}"), &class, "structural guarantee (DESIGN C05b)".into(), detail);
                        }
                    }
                }
                r
            })
            .collect();
        for p in parts {
            rep.merge(p);
        }
    }
    if let Some((attr, item, name, nu, vis)) = space.get(3) {
        if let Ok(ts) = expand(Shim::All, attr, item) {
            rep.samples.push(json!({"declaration": format!("#[nutype({attr})] {item}"), "facts": structural::facts(&ts, name), "problems": structural::check(&ts, name, *nu, *vis)}));
        }
    }
    rep.bounds.insert("declarations".into(), json!(format!("{} declarations x 3 feature sets", space.len())));
    rep
}

// ------------------------------------------------------------------------------------------------
// C15 token scan

fn scan_tokens(ts: TokenStream, prev: &mut Vec<String>, found: &mut Vec<String>) {
    for tt in ts {
        match tt {
            TokenTree::Group(g) => scan_tokens(g.stream(), prev, found),
            TokenTree::Ident(i) => {
                let s = i.to_string();
                let forbidden = ["std", "String", "Vec", "Box", "format", "vec", "ToString", "to_string", "to_owned", "ToOwned", "HashMap", "HashSet", "Rc", "Arc", "LazyLock", "println", "eprintln"];
                if forbidden.contains(&s.as_str()) {
                    found.push(s.clone());
                }
                prev.push(s);
            }
            _ => {}
        }
    }
}

fn c15(tier: Tier) -> Rep {
    let mut rep = Rep::new();
    // integer / float / other declarations without user tokens that mention alloc/std names
    let mut space: Vec<(String, String)> = vec![];
    let masks = masks_upto(if tier == Tier::Quick { 2 } else { 3 });
    for (fam, ty) in [(Family::Int, "i32"), (Family::Int, "u128"), (Family::Float, "f64"), (Family::Float, "f32"), (Family::Any, "Pt"), (Family::Any, "[u8; 4]")] {
        // the guard shapes of the admissibility model + one-sided / two-sided bound sets with and without `finite`
        // (generators branch on exactly which bounds are present)
        let mut guards: Vec<&'static str> = SHAPES.iter().filter_map(|g| guard_attr(fam, *g)).collect();
        match fam {
            Family::Float => guards.extend(["validate(greater_or_equal = 0.0),", "validate(less = 100.0),", "validate(greater = 0.0),", "validate(less_or_equal = 1.0),", "validate(finite),", "validate(finite, greater_or_equal = 0.0),", "validate(less = 1.0, finite),", "validate(finite, greater = 0.0, less_or_equal = 1.0),"]),
            Family::Int => guards.extend(["validate(greater = 1),", "validate(greater_or_equal = 1),", "validate(less = 100),", "validate(less_or_equal = 100),"]),
            _ => {}
        }
        for ga in guards {
            for &mask in &masks {
                let set = subset_of(mask);
                let names: Vec<&str> = set.iter().map(|t| t.name()).collect();
                for cf in [false, true] {
                    if cf && mask % 5 != 0 {
                        continue;
                    }
                    let def = match ty {
                        "i32" | "u128" => "default = 5,",
                        "f64" | "f32" => "default = 5.0,",
                        "Pt" => "default = Pt { x: 1, y: 1 },",
                        _ => "default = [0, 0, 0, 0],",
                    };
                    space.push((format!("{ga} {def} derive({}){}", names.join(", "), if cf { ", const_fn" } else { "" }), format!("pub struct X({ty});")));
                }
            }
        }
    }
    for (attr, item) in [("derive(Debug, Clone, AsRef, Deref, Borrow, Into, Display, FromStr, Serialize, Deserialize, Default), default = T::default()", "pub struct X<T: Default>(T);"), ("validate(predicate = is_ok), derive(Debug, AsRef, Deref, TryFrom)", "pub struct X<'a>(&'a [u8]);")] {
        space.push((attr.into(), item.into()));
    }
    for shim in [Shim::NoStd, Shim::Pre181NoStd] {
        let parts: Vec<Rep> = space
            .par_iter()
            .map(|(attr, item)| {
                let mut r = Rep::new();
                r.evaluations += 1;
                r.transitions += 1;
                if let Ok(ts) = expand(shim, attr, item) {
                    r.states += 1;
                    r.nontrivial += 1;
                    let mut prev = vec![];
                    let mut found = vec![];
                    scan_tokens(ts, &mut prev, &mut found);
                    r.h("expansions-scanned", 1);
                    if !found.is_empty() {
                        found.sort();
                        found.dedup();
                        r.violate("C15", format!("#[nutype({attr})] {item}"), format!("{shim:?}"), "not-no_std-clean", "expansion names only core/alloc-free items".into(), format!("std/alloc-only names in the expansion: {found:?}"));
                    }
                } else {
                    r.h("rejected-by-macro", 1);
                }
                r
            })
            .collect();
        for p in parts {
            rep.merge(p);
        }
    }
    // pre-1.81 std build must name ::std::error::Error (control for the scan itself: the scanner sees `std`)
    if let Ok(ts) = expand(Shim::Pre181Std, "validate(greater = 1), derive(Debug)", "pub struct X(i32);") {
        let mut prev = vec![];
        let mut found = vec![];
        scan_tokens(ts, &mut prev, &mut found);
        if !found.contains(&"std".to_string()) {
            rep.machinery.push("token scanner control failed: pre-1.81 std expansion should mention `std`".into());
        }
        rep.samples.push(json!({"control": "pre-1.81 + std expansion of validate(greater = 1)", "std_names_found": found}));
    }
    rep.bounds.insert("declarations".into(), json!(format!("{} declarations x 2 no-std shims (ERROR_IN_CORE on / off)", space.len())));
    rep
}

fn main() {
    let args: Vec<String> = std::env::args().collect();
    let cmd = args.get(1).map(|s| s.as_str()).unwrap_or("");
    let get = |k: &str, d: &str| -> String { args.iter().position(|a| a == k).and_then(|i| args.get(i + 1)).cloned().unwrap_or_else(|| d.to_string()) };
    std::panic::set_hook(Box::new(|_| {}));
    match cmd {
        "bind" => {
            let shim = match get("--features", "all").as_str() {
                "none" => Shim::None,
                "nostd" => Shim::NoStd,
                _ => Shim::All,
            };
            let mut s = String::new();
            std::io::Read::read_to_string(&mut std::io::stdin(), &mut s).unwrap();
            let items: Vec<serde_json::Value> = serde_json::from_str(&s).unwrap();
            let out: Vec<serde_json::Value> = items
                .par_iter()
                .map(|it| {
                    let r = expand(shim, it["attrs"].as_str().unwrap(), it["item"].as_str().unwrap());
                    match r {
                        Ok(_) => json!({"id": it["id"], "accept": true}),
                        Err(m) => json!({"id": it["id"], "accept": false, "message": m}),
                    }
                })
                .collect();
            println!("{}", serde_json::to_string(&out).unwrap());
        }
        "c08" | "c05" | "c15" | "c12" => {
            let tier = Tier::parse(&get("--tier", "quick"));
            let t0 = std::time::Instant::now();
            let rep = match cmd {
                "c08" => c08(tier),
                "c05" => c05(tier),
                "c12" => c12(tier),
                _ => c15(tier),
            };
            let js = rep.to_json(&cmd.to_uppercase(), tier);
            let out = get("--out", "");
            if out.is_empty() {
                println!("{}", serde_json::to_string_pretty(&js).unwrap());
            } else {
                std::fs::write(out, serde_json::to_string(&js).unwrap()).unwrap();
            }
            eprintln!("MX {cmd} {}: evaluations={} states={} violations={} wall={:.1}s", tier.name(), rep.evaluations, rep.states, rep.violation_count, t0.elapsed().as_secs_f64());
        }
        "expand" => {
            let r = expand(Shim::All, &get("--attrs", ""), &get("--item", "pub struct X(i32);"));
            match r {
                Ok(ts) => println!("{ts}"),
                Err(e) => println!("ERROR: {e}"),
            }
        }
        _ => {
            eprintln!("usage: ntmx bind|c08|c05|c15|expand ...");
            std::process::exit(2);
        }
    }
}
