//! C05(b): structural invariant over one expansion. The rule set is semantic (construction sites,
//! mutable access, visibility), not a list of allowed trait names.

use ntcore::model::Vis;
use proc_macro2::TokenStream;
use quote::ToTokens;
use syn::visit::{self, Visit};

fn norm(ts: impl ToTokens) -> String {
    ts.to_token_stream().to_string().replace(' ', "")
}

struct Sites<'a> {
    name: &'a str,
    fn_stack: Vec<(String, bool, String)>, // (fn name, is unsafe fn, body text)
    sites: Vec<(String, bool, String, String)>, // (enclosing fn, unsafe fn, body text, site text)
    unsafe_blocks: usize,
    mut_receivers: Vec<String>,
    mut_returns: Vec<String>,
    mut_params: Vec<String>,
    fns: Vec<(String, bool)>,
}

impl<'a> Sites<'a> {
    fn is_ctor_path(&self, p: &syn::Path) -> bool {
        if p.segments.len() == 1 {
            let s = p.segments[0].ident.to_string();
            return s == self.name || s == "Self";
        }
        // `__nutype_X__::X` or `self::X`
        if let Some(last) = p.segments.last() {
            let first = p.segments[0].ident.to_string();
            if last.ident == self.name && (first.starts_with("__nutype_") || first == "self" || first == "super" || first == "crate") {
                return true;
            }
        }
        false
    }
    fn enter_sig(&mut self, sig: &syn::Signature, body: String) {
        let name = sig.ident.to_string();
        self.fns.push((name.clone(), sig.unsafety.is_some()));
        for a in &sig.inputs {
            if let syn::FnArg::Receiver(r) = a {
                if r.mutability.is_some() && r.reference.is_some() {
                    self.mut_receivers.push(name.clone());
                }
                if norm(&r.ty).starts_with("&mut") {
                    self.mut_receivers.push(name.clone());
                }
            }
        }
        // a parameter giving mutable access to an EXISTING newtype value (`place: &mut Self`, e.g. an
        // in-place deserializer / clone_from / swap helper): whatever the body does with it, the value can be
        // changed without passing through the constructor
        for a in &sig.inputs {
            if let syn::FnArg::Typed(pt) = a {
                let t = norm(&pt.ty);
                if t.contains("&mutSelf") || t.contains(&format!("&mut{}", self.name)) || t.contains(&format!("&'amut{}", self.name)) {
                    self.mut_params.push(format!("{name}({})", norm(pt)));
                }
            }
        }
        if let syn::ReturnType::Type(_, t) = &sig.output {
            if norm(t).contains("&mut") {
                self.mut_returns.push(name.clone());
            }
        }
        self.fn_stack.push((name, sig.unsafety.is_some(), body));
    }
}

impl<'a, 'ast> Visit<'ast> for Sites<'a> {
    fn visit_item_fn(&mut self, i: &'ast syn::ItemFn) {
        self.enter_sig(&i.sig, norm(&i.block));
        visit::visit_item_fn(self, i);
        self.fn_stack.pop();
    }
    fn visit_impl_item_fn(&mut self, i: &'ast syn::ImplItemFn) {
        self.enter_sig(&i.sig, norm(&i.block));
        visit::visit_impl_item_fn(self, i);
        self.fn_stack.pop();
    }
    fn visit_expr_call(&mut self, e: &'ast syn::ExprCall) {
        if let syn::Expr::Path(p) = &*e.func {
            if self.is_ctor_path(&p.path) {
                let (f, u, b) = self.fn_stack.last().cloned().unwrap_or(("<no fn>".into(), false, String::new()));
                self.sites.push((f, u, b, norm(e)));
            }
        }
        visit::visit_expr_call(self, e);
    }
    fn visit_expr_struct(&mut self, e: &'ast syn::ExprStruct) {
        if self.is_ctor_path(&e.path) {
            let (f, u, b) = self.fn_stack.last().cloned().unwrap_or(("<no fn>".into(), false, String::new()));
            self.sites.push((f, u, b, norm(e)));
        }
        visit::visit_expr_struct(self, e);
    }
    fn visit_expr_unsafe(&mut self, e: &'ast syn::ExprUnsafe) {
        self.unsafe_blocks += 1;
        visit::visit_expr_unsafe(self, e);
    }
    fn visit_item_mod(&mut self, m: &'ast syn::ItemMod) {
        // generated `#[cfg(test)] mod tests` is test-only code in the user's crate: not client-reachable
        if m.ident == "tests" {
            return;
        }
        visit::visit_item_mod(self, m);
    }
}

const FORBIDDEN_TRAITS: [&str; 6] = ["DerefMut", "AsMut", "BorrowMut", "IndexMut", "Default_unchecked", "CloneFrom"];
const TRANSPARENT_OK: [&str; 9] = ["Debug", "Clone", "Copy", "PartialEq", "Eq", "PartialOrd", "Ord", "Hash", "JsonSchema"];

pub fn check(ts: &TokenStream, name: &str, nu_expected: bool, vis: Vis) -> Vec<(String, String)> {
    let mut out: Vec<(String, String)> = vec![];
    let file: syn::File = match syn::parse2(ts.clone()) {
        Ok(f) => f,
        Err(e) => return vec![("unparseable-expansion".into(), e.to_string())],
    };
    let modname = format!("__nutype_{name}__");
    let want_vis = vis.src().replace(' ', "");
    let mut mods = 0;
    for it in &file.items {
        match it {
            syn::Item::Mod(m) if m.ident == modname => {
                mods += 1;
                if !matches!(m.vis, syn::Visibility::Inherited) {
                    out.push(("generated-module-not-private".into(), norm(&m.vis)));
                }
                let Some((_, items)) = &m.content else { continue };
                for mi in items {
                    match mi {
                        syn::Item::Struct(s) if s.ident == name => {
                            match &s.fields {
                                syn::Fields::Unnamed(f) if f.unnamed.len() == 1 => {
                                    if !matches!(f.unnamed[0].vis, syn::Visibility::Inherited) {
                                        out.push(("inner-field-visible".into(), norm(&f.unnamed[0].vis)));
                                    }
                                }
                                other => out.push(("struct-shape".into(), norm(other))),
                            }
                            for a in &s.attrs {
                                if a.path().is_ident("derive") {
                                    let _ = a.parse_nested_meta(|m| {
                                        let last = m.path.segments.last().map(|s| s.ident.to_string()).unwrap_or_default();
                                        if !TRANSPARENT_OK.contains(&last.as_str()) {
                                            out.push(("foreign-derive-passed-through".into(), last));
                                        }
                                        Ok(())
                                    });
                                } else if !a.path().is_ident("doc") && !a.path().is_ident("allow") {
                                    out.push(("foreign-attribute-passed-through".into(), norm(a)));
                                }
                            }
                        }
                        syn::Item::Impl(im) => {
                            if let Some((_, path, _)) = &im.trait_ {
                                let last = path.segments.last().map(|s| s.ident.to_string()).unwrap_or_default();
                                if FORBIDDEN_TRAITS.contains(&last.as_str()) {
                                    out.push(("mutable-view-trait".into(), format!("impl {last} for {}", norm(&im.self_ty))));
                                }
                                if let syn::Type::Reference(r) = &*im.self_ty {
                                    if r.mutability.is_some() && norm(&r.elem).starts_with(name) {
                                        out.push(("impl-for-mutable-reference".into(), format!("impl {last} for {}", norm(&im.self_ty))));
                                    }
                                }
                            }
                        }
                        _ => {}
                    }
                }
            }
            syn::Item::Use(u) => {
                if norm(&u.vis) != want_vis {
                    out.push(("reexport-visibility-differs".into(), format!("declared `{}` re-exported as `{}`", want_vis, norm(&u.vis))));
                }
                let t = norm(&u.tree);
                if !t.starts_with(&format!("{modname}::")) {
                    out.push(("unexpected-reexport".into(), t));
                }
            }
            other => out.push(("unexpected-top-level-item".into(), norm(other).chars().take(120).collect())),
        }
    }
    if mods != 1 {
        out.push(("generated-module-count".into(), format!("{mods}")));
    }
    let mut v = Sites { name, fn_stack: vec![], sites: vec![], unsafe_blocks: 0, mut_receivers: vec![], mut_returns: vec![], mut_params: vec![], fns: vec![] };
    v.visit_file(&file);
    for (f, uns, body, site) in &v.sites {
        match f.as_str() {
            "try_new" => {
                let pv = body.find("__validate__");
                let ps = body.find(site.as_str());
                if !(pv.is_some() && ps.is_some() && pv < ps) {
                    out.push(("construction-before-validation".into(), format!("{site} in try_new")));
                }
                if !site.contains("sanitized_value") {
                    out.push(("try_new-wraps-something-else".into(), site.clone()));
                }
            }
            "new" => {
                if !site.contains("__sanitize__") {
                    out.push(("new-wraps-unsanitized".into(), site.clone()));
                }
            }
            "new_unchecked" => {
                if !uns {
                    out.push(("new_unchecked-not-unsafe".into(), site.clone()));
                }
                if !nu_expected {
                    out.push(("new_unchecked-without-flag".into(), site.clone()));
                }
            }
            other => out.push(("unguarded-construction-site".into(), format!("{site} in fn {other}"))),
        }
    }
    let has_nu = v.fns.iter().any(|(n, _)| n == "new_unchecked");
    if has_nu && !nu_expected {
        out.push(("new_unchecked-without-flag".into(), "fn new_unchecked generated".into()));
    }
    if !has_nu && nu_expected {
        // not a safety problem; the flag asked for it, though
        out.push(("new_unchecked-missing".into(), "flag and feature given but no fn new_unchecked".into()));
    }
    for (n, uns) in &v.fns {
        if n == "new_unchecked" && !uns {
            out.push(("new_unchecked-not-unsafe".into(), "fn new_unchecked is safe".into()));
        }
    }
    if v.unsafe_blocks > 0 {
        out.push(("unsafe-block-in-expansion".into(), format!("{}", v.unsafe_blocks)));
    }
    for f in &v.mut_receivers {
        out.push(("fn-takes-mut-self".into(), f.clone()));
    }
    for f in &v.mut_returns {
        out.push(("fn-returns-mut-reference".into(), f.clone()));
    }
    for f in &v.mut_params {
        out.push(("fn-takes-mut-newtype".into(), f.clone()));
    }
    let text = ts.to_string();
    for bad in ["transmute", "zeroed", "MaybeUninit", "from_raw", "ptr :: write", "ptr :: read"] {
        if text.contains(bad) {
            out.push(("raw-memory-primitive".into(), bad.to_string()));
        }
    }
    out
}

pub fn facts(ts: &TokenStream, name: &str) -> serde_json::Value {
    let Ok(file) = syn::parse2::<syn::File>(ts.clone()) else { return serde_json::json!("unparseable") };
    let mut v = Sites { name, fn_stack: vec![], sites: vec![], unsafe_blocks: 0, mut_receivers: vec![], mut_returns: vec![], mut_params: vec![], fns: vec![] };
    v.visit_file(&file);
    serde_json::json!({"functions": v.fns.len(), "construction_sites": v.sites.iter().map(|s| format!("{} in {}", s.3, s.0)).collect::<Vec<_>>(), "unsafe_blocks": v.unsafe_blocks})
}
