#!/bin/bash
# Runs every thorough check once (long: about two hours on 16 idle cores); logs to /tmp/thorough_<id>.log
cd /verif || exit 2
for p in ${@:-C02 C05 C08 C15 C03 C04 C06 C07 C09 C10 C11 C12 C13 C14 C16 C01}; do
  /usr/bin/time -f "$p wall=%es maxrss=%MKB" ./check $p --tier thorough > /tmp/thorough_$p.log 2>&1
  echo "$p exit=$? $(tail -1 /tmp/thorough_$p.log | cut -c1-120)"
done
