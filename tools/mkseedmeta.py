#!/usr/bin/env python3
"""Composes /verif/seeded/<id>/meta.json from the sub-agent's own meta, my demo confirmation log and the seedtest result."""
import json, os, re, sys
root = "/verif/seeded"
confirm = {}
for series in "abcdefghijklm":
    lp = os.path.join(root, "confirm_demos_%s.log" % series)
    if os.path.exists(lp):
        for l in open(lp):
            m = re.match(r"(C\d+) cmd='(.*)' with_change_exit=(\d+) without_change_exit=(\d+)", l)
            if m:
                confirm[(m.group(1), series)] = {"cmd": m.group(2), "with_change_exit": int(m.group(3)), "without_change_exit": int(m.group(4))}
for d in sorted(os.listdir(root)):
    p = os.path.join(root, d)
    if not os.path.isdir(p):
        continue
    am = {}
    if os.path.exists(os.path.join(p, "agent_meta.json")):
        am = json.load(open(os.path.join(p, "agent_meta.json")))
    st = {}
    if os.path.exists(os.path.join(p, "seedtest.json")):
        st = json.load(open(os.path.join(p, "seedtest.json")))
    prop = am.get("property") or d.split("-")[1]
    old = {}
    if os.path.exists(os.path.join(p, "meta.json")):
        old = json.load(open(os.path.join(p, "meta.json")))
    meta = {
        "id": d,
        "property": prop,
        "summary": am.get("summary", old.get("summary", "")),
        "needs_to_manifest": am.get("needs_to_manifest", old.get("needs_to_manifest", "")),
        "files_changed": am.get("files_changed", old.get("files_changed", [])),
        "origin": "fresh sub-agent given only the property text and its own scratch worktree of /repo",
        "confirmed_by_me": {
            "baseline_211_pass_with_change": st.get("baseline", {}).get("exit") == 0 if st else old.get("confirmed_by_me", {}).get("baseline_211_pass_with_change"),
            "demo": confirm.get((prop, d.split("-")[-1]), old.get("confirmed_by_me", {}).get("demo")),
            "how": "patch applied to /repo's working tree by tools/seedtest.py (reverted afterwards): tools/baseline.sh, then every quick check; demonstration run in the agent's scratch worktree with the change and with the change stashed",
        },
        "checks_run": {k: {"exit": v["exit"], "violations": v.get("violations")} for k, v in st.items() if k != "baseline"} or old.get("checks_run", {}),
        "caught_by": sorted(k for k, v in st.items() if k != "baseline" and v.get("exit") == 1) or old.get("caught_by", []),
        "first_detail": {k: (v.get("detail") or [""])[0][:300] for k, v in st.items() if k != "baseline" and v.get("exit") == 1},
    }
    r1p = os.path.join(p, "seedtest_run1.json")
    if os.path.exists(r1p):
        r1 = json.load(open(r1p))
        meta["first_run"] = {"note": "checks as committed before the change was examined (see DESIGN 14)", "caught_by": sorted(k for k, v in r1.items() if k != "baseline" and v.get("exit") == 1), "machinery_exit_2": sorted(k for k, v in r1.items() if k != "baseline" and v.get("exit") == 2)}
    for keep in ("history", "caught_by_now"):
        if old.get(keep):
            meta[keep] = old[keep]
    json.dump(meta, open(os.path.join(p, "meta.json"), "w"), indent=1)
    print(d, prop, "caught_by", meta["caught_by"])
