#!/usr/bin/env python3
"""Systematic single-check-removal mutants for the admissibility code (DESIGN section 8):
one mutant per refusal site of the validate.rs files, meta.rs and parse/mod.rs.
Writes unified diffs to /verif/mutants/sys_<n>_<slug>.diff (against /repo HEAD). Nothing is applied."""
import difflib
import os
import re
import subprocess

REPO = "/repo"
OUT = "/verif/mutants"


def head(path):
    return subprocess.run(["git", "-C", REPO, "show", "HEAD:" + path], capture_output=True, text=True).stdout


def write(n, slug, path, old, new):
    if old == new:
        return False
    d = "".join(difflib.unified_diff(old.splitlines(True), new.splitlines(True), "a/" + path, "b/" + path))
    with open(os.path.join(OUT, "sys_%02d_%s.diff" % (n, slug)), "w") as f:
        f.write(d)
    return True


def nth_replace(s, needle, repl, k):
    idx = -1
    for _ in range(k + 1):
        idx = s.find(needle, idx + 1)
        if idx < 0:
            return None
    return s[:idx] + repl + s[idx + len(needle):]


def main():
    os.makedirs(OUT, exist_ok=True)
    for f in os.listdir(OUT):
        if f.startswith("sys_"):
            os.remove(os.path.join(OUT, f))
    n = 0
    # 1. every `return Err(err);` / `return Err(error);` in the validate.rs files is dropped
    for path in ["nutype_macros/src/common/validate.rs", "nutype_macros/src/string/validate.rs", "nutype_macros/src/integer/validate.rs", "nutype_macros/src/float/validate.rs", "nutype_macros/src/any/validate.rs"]:
        src = head(path)
        for needle, repl in (("return Err(err);", "let _ = err;"),):
            k = 0
            while True:
                m = nth_replace(src, needle, repl, k)
                if m is None:
                    break
                n += 1
                write(n, "%s_drop_refusal_%d" % (path.split("/")[2], k), path, src, m)
                k += 1
    # 2. targeted sites
    targeted = [
        ("nutype_macros/src/common/parse/meta.rs", "    validate_supported_attrs(&attrs)?;\n", "", "meta_foreign_attrs_allowed"),
        ("nutype_macros/src/common/parse/meta.rs", "    intercept_derive_macro(&attrs)?;\n", "", "meta_derive_attr_allowed"),
        ("nutype_macros/src/common/parse/meta.rs", "    validate_inner_field_visibility(&seg.vis)?;\n", "", "meta_visible_field_allowed"),
        ("nutype_macros/src/common/parse/mod.rs", "        if strict_attr_name == attr_name {", "        if strict_attr_name == attr_name || true {", "parse_any_case_kind_names"),
        ("nutype_macros/src/common/validate.rs", "            if i1 != i2 && item1.kind() == item2.kind() {", "            if false && i1 != i2 && item1.kind() == item2.kind() {", "common_duplicates_undetected"),
        ("nutype_macros/src/common/validate.rs", "        (Some(_from), Some(try_from)) => {", "        (Some(_from), Some(try_from)) if false => {", "common_from_and_tryfrom_allowed"),
        ("nutype_macros/src/float/validate.rs", "        DeriveTrait::Eq => {\n            if validation.has_nan_validation {", "        DeriveTrait::Eq => {\n            if validation.has_validation {", "float_eq_with_any_validation"),
        ("nutype_macros/src/float/validate.rs", "        DeriveTrait::Ord => {\n            if validation.has_nan_validation {", "        DeriveTrait::Ord => {\n            if validation.has_validation {", "float_ord_with_any_validation"),
        ("nutype_macros/src/float/validate.rs", "            Validation::Custom { .. } => false,", "            Validation::Custom { .. } => true,", "float_custom_validation_counts_as_nan_proof"),
        ("nutype_macros/src/float/validate.rs", "        DeriveTrait::From => {\n            if validation.has_validation {", "        DeriveTrait::From => {\n            if false && validation.has_validation {", "float_from_with_validation"),
        ("nutype_macros/src/integer/validate.rs", "        DeriveTrait::From => {\n            if has_validation {", "        DeriveTrait::From => {\n            if false && has_validation {", "integer_from_with_validation"),
        ("nutype_macros/src/string/validate.rs", "        DeriveTrait::From => {\n            if has_validation {", "        DeriveTrait::From => {\n            if false && has_validation {", "string_from_with_validation"),
        ("nutype_macros/src/string/validate.rs", "        if len_char_min > len_char_max {", "        if false && len_char_min > len_char_max {", "string_len_contradiction_allowed"),
        ("nutype_macros/src/string/validate.rs", "                    Err(err) => Err(syn::Error::new(span, format!(\"{err}\"))),", "                    Err(err) => { let _ = (err, span); Ok(()) }", "string_invalid_regex_allowed"),
        ("nutype_macros/src/float/validate.rs", "    if traits.contains(&FloatDeriveTrait::Eq) && !traits.contains(&FloatDeriveTrait::PartialEq) {", "    if false && traits.contains(&FloatDeriveTrait::Eq) && !traits.contains(&FloatDeriveTrait::PartialEq) {", "float_eq_without_partialeq"),
        ("nutype_macros/src/common/validate.rs", "        if lower.item >= upper.item {\n            let msg = \"The lower bound (`greater`) cannot", "        if lower.item > upper.item {\n            let msg = \"The lower bound (`greater`) cannot", "common_greater_less_equal_allowed"),
        ("nutype_macros/src/common/validate.rs", "        if lower.item > upper.item {\n            let msg = \"The lower bound (`greater` or", "        if lower.item > upper.item && false {\n            let msg = \"The lower bound (`greater` or", "common_inclusive_contradiction_allowed"),
        ("nutype_macros/src/common/gen/tests.rs", "    if !has_validation {\n        // If there is no validation, then every possible default value will be valid,", "    if !has_validation || true {\n        // If there is no validation, then every possible default value will be valid,", "tests_no_default_test"),
        ("nutype_macros/src/common/gen/tests.rs", "        (quote!(>), \"greater than\")", "        (quote!(>=), \"greater than\")", "tests_boundary_test_not_strict"),
        ("nutype_macros/src/string/gen/tests.rs", "            assert!(#len_char_max >= #len_char_min, #msg);", "            assert!(#len_char_max >= #len_char_min || true, #msg);", "tests_len_boundary_test_vacuous"),
        ("nutype_macros/src/integer/gen/traits/mod.rs", "                        Err(syn::Error::new(span, msg))\n                    }\n                }\n            }\n            IntegerIrregularTrait::SerdeSerialize", "                        let _ = (span, msg);\n                        Ok(quote!())\n                    }\n                }\n            }\n            IntegerIrregularTrait::SerdeSerialize", "integer_default_without_default_allowed"),
        ("nutype_macros/src/common/parse/mod.rs", "            (0, Some(_), None) => {", "            (0, Some(_), None) if false => {", "parse_with_without_error_falls_through"),
        ("nutype_macros/src/common/parse/mod.rs", "            (_, None, None) => Ok(RawValidation::Standard { validators }),", "            (_, _, _) if !validators.is_empty() => Ok(RawValidation::Standard { validators }),", "parse_with_mixed_with_builtins_ignored"),
    ]
    for path, old, new, slug in targeted:
        src = head(path)
        if old not in src:
            print("SITE NOT FOUND:", slug)
            continue
        n += 1
        write(n, slug, path, src, src.replace(old, new, 1))
    print("wrote %d mutants" % n)


if __name__ == "__main__":
    main()
