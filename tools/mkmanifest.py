#!/usr/bin/env python3
"""Regenerates /verif/MANIFEST.json from the table below (kept in one place so it stays valid)."""
import json, subprocess

RT_NOTE = "trusted base: the reference model REF (ntcore::refsem, 250 lines), the user-function library ulib, rustc 1.95, the pinned serde_json/ron/rmp-serde/arbitrary crates used identically on the oracle side; bounds: whole type for 8/16-bit ints, pivot neighbourhoods for wider ints and f64, structured f32 set (all 2^32 patterns in thorough where stated), strings over a 11/22-character alphabet up to length 3/4"
CC_NOTE = "trusted base: rustc 1.95 verdicts read from JSON diagnostics and attributed to the enclosing module by span, iterated to a fixpoint; every reject case has a must-compile control twin; REF's admissibility predicate (ntcore::admit)"

CHECKS = {
 "C01": ("rt", "bounded exhaustive exploration of the real constructors in lock step with an executable reference model (explicit-state, no sampling)", "4/C01",
         "Every (declaration, raw input) pair of the bounded grammar x domain is executed on the code the real proc macro generated and compared with REF on verdict and stored bits; const_fn tables are evaluated by rustc's const evaluator and compared too. Exhaustive within the stated bounds, which is what a universally quantified constructor property needs and what the 211 example tests cannot give."),
 "C03": ("rt", "bounded exhaustive differential exploration: every derived conversion vs the real constructor on every domain input", "4/C03",
         "TryFrom/From/FromStr(String)/Default are run on every input of the C01 domain and must reproduce the constructor's outcome exactly (value bits, error variant, text); Default is run under catch_unwind against REF."),
 "C04": ("rt", "bounded exhaustive enumeration of documents x formats x container positions, differential against a plain serde newtype + reference model", "4/C04",
         "All documents of the bounded document set (serialised domain values, wrongly typed values, raw texts/bytes) in JSON/RON/MessagePack at 7 container positions are decoded by the generated Deserialize and by a plain serde-derived newtype of the same name; acceptance and value must equal REF.construct on the carried inner values."),
 "C06": ("rt", "bounded exhaustive enumeration of input texts, differential against the inner FromStr + reference model", "4/C06",
         "Every text of a bounded text set (renderings of every domain value, all strings up to length 3/4 over a numeric alphabet, a list of oddities) is parsed by the inner type and by the newtype; Parse iff the inner parse fails, otherwise the outcome equals REF.construct of the parsed value."),
 "C07": ("rt", "bounded exhaustive exploration of all validator-list permutations x inputs against the reference model's first-violation rule; enum shape by exhaustive wildcard-free match at compile time", "4/C07",
         "For every rejected input of every permutation of the validator lists the reported variant must be the first rule, in written order, that the sanitized value violates; the variant set is pinned at compile time of the subject crates."),
 "C09": ("rt", "bounded exhaustive enumeration of byte inputs per Arbitrary generator (all inputs up to 2 bytes, boundary patterns to 64 bytes, structured generator words; all 2^32 words for f32 in thorough) under catch_unwind and a watchdog", "4/C09",
         "Every Arbitrary-deriving subject with a non-empty valid set is driven with the complete bounded byte-input set; each outcome must be a value satisfying all validators or arbitrary::Error. Panics and hangs are violations."),
 "C10": ("rt", "bounded exhaustive enumeration of obtainable values x 3 formats: byte-level and serializer-event-level comparison with a plain newtype and the bare inner value, plus round trip", "4/C10",
         "For every obtainable canonical value the serialisation must be byte-identical to a plain serde newtype (and to the inner value in JSON/MessagePack), the recorded Serializer call sequence must be serialize_newtype_struct + the inner events, and from(to(v)) == v whenever the inner value round-trips."),
 "C11": ("rt", "explicit-state breadth-first search over (declaration, stored value) states with the derived entry points as transitions; invariant: every transition is a self loop", "4/C11",
         "States are all values obtainable from the C01 domain plus Unicode-context sweeps and (for chains whose idempotence does not rest on the bounded domain) the values Arbitrary produces; transitions re-enter every derived entry point with the state's own inner value / Display / serialisation; any non-self-loop is a counterexample and is followed to depth 4."),
 "C12": ("rt", "explicit-state reachability over every entry point (non-finite value unobtainable) + exhaustive pair/triple/permutation checking of the order laws on the reached grid", "4/C12",
         "For float newtypes with finite deriving Eq/Ord every entry point is explored on every non-finite input class; on a grid of obtained values all pairs (incl. the operators < <= > >=), all triples and sort/BTreeMap on all rotations and 720-permutation sets are checked against the inner partial_cmp; every float declaration spelling without finite x every derive subset of bounded size containing Eq or Ord is expanded in-process and must be refused."),
 "C13": ("rt", "bounded exhaustive enumeration of obtainable values and all ordered pairs; views, Display, Hash write sequences and comparisons against the inner value", "4/C13",
         "Every derived view of every obtainable value must equal REF's stored value, hash write sequences must be byte-identical to the inner and borrowed forms, and ==, !=, partial_cmp, cmp, the operators < <= > >=, Ord::max/min and clone_from on all ordered pairs must equal the inner type's; map lookups through the borrowed form must succeed."),
 "C14": ("rt", "exhaustive enumeration of every byte string of the length the generator consumes; produced set compared with the reference model's valid set", "4/C14",
         "For integer Arbitrary subjects with at most 2^16 valid values the complete input space of the generator is enumerated, so set equality (not just membership) is decided."),
 "C02": ("cc", "bounded exhaustive enumeration of bound spellings and attribute layouts through the real macro + rustc (per-module verdicts to a fixpoint), survivors executed on the neighbourhood of the denoted bound against the reference model", "4/C02",
         "Every spelling form x validator kind x value position x type and every attribute layout (orders, trailing commas, flags, repeated blocks) is compiled; a rejected declaration is fine, an accepted one must give exactly REF's verdict (computed from the DENOTED value of every written rule) on every probe input."),
 "C05": ("cc", "exhaustive compile-verdict exploration of an attack catalogue with control twins (fixpoint over rustc diagnostics) + structural invariant checked on every expansion of the bounded declaration space (in-process macro, syn)", "4/C05",
         "For each target declaration every bypass program must be rejected by rustc and every legitimate twin must compile; every expansion is parsed and all functions / impls / construction sites are checked against the guarantee (private module and field, construction only behind the guards, no mutable access, new_unchecked only unsafe with flag and feature)."),
 "C08": ("cc", "bounded exhaustive exploration of the declaration grammar against a three-valued reference admissibility predicate: in-process macro over the derive-subset space and bound positions, real macro + rustc on the reject/accept catalogue, cargo test on generated tests", "4/C08",
         "The macro's accept/reject verdict is computed for every declaration of the bounded grammar (all derive subsets up to size 3 / all 2^22 in thorough, per family x guard shape x default; literal bounds in every relative position for all 14 numeric types; all reject classes per family; names that generated code also uses) and compared with REF's MustReject / MustAccept / Either; generated tests for expression bounds and defaults are run; every declaration of the runtime subject pool must compile."),
 "C15": ("cc", "bounded exhaustive compile-verdict exploration of the non-string declaration grammar in #![no_std] crates against a std twin + token scan of every no-std expansion (in-process macro)", "4/C15",
         "Every integer/float/other declaration of the bounded grammar x derive sets x flags is compiled in a #![no_std] crate with default features off (+serde, +arbitrary) - with the real arbitrary crate, in a crate graph that links no std at all (std-free port of arbitrary), and with cfg(test) on - and in a std twin; whatever compiles in the twin must compile in all three no_std builds; all expansions of the no-std shims (with and without ERROR_IN_CORE) are scanned for std/alloc-only names."),
 "C16": ("rt", "bounded exhaustive evaluation of the relation stated by each error text (extracted with a phrase lexicon) against the constructor's verdict on every domain input", "4/C16",
         "For every bound validator the Display text must name the type and bound, and the relation it states must agree with the real constructor on every input whose other rules pass; FromStr and serde texts must embed it."),
}

def main():
    checks = []
    for pid, (engine, technique, ref, text) in sorted(CHECKS.items()):
        checks.append({
            "property_id": pid,
            "quick_cmd": "./check %s --tier quick" % pid,
            "thorough_cmd": "./check %s --tier thorough" % pid,
            "evidence_file": "/verif/evidence/%s.json" % pid,
            "replay_cmd_template": "./check %s --replay {path}" % pid,
            "engine": engine,
            "level_claimed": {"category": "model_checking", "text": text, "design_ref": ref},
            "level_note": RT_NOTE if engine == "rt" else CC_NOTE,
            "technique": technique,
        })
    hooks = subprocess.run(["git", "-C", "/repo", "log", "--format=%H %s"], capture_output=True, text=True).stdout.splitlines()
    hook_commits = [l.split()[0] for l in hooks if "verif hook" in l]
    claimed = set(CHECKS)
    allp = ["C%02d" % i for i in range(1, 17)]
    na = [{"property_id": p, "reason": NOT_YET.get(p, "check not built yet")} for p in allp if p not in claimed]
    man = {
        "version": 1,
        "setup_cmd": "./check setup",
        "hooks": {
            "guard": "--cfg nutype_verif",
            "enable": "the MX shims under /verif/harness/shims compile /repo/nutype_macros/src as an ordinary library with build.rs emitting cargo:rustc-cfg=nutype_verif; the real proc-macro build used by the RT and CC engines never sets the guard",
            "baseline_off_cmd": "/verif/tools/baseline.sh",
            "source_commits": hook_commits,
            "add_only": True,
        },
        "engines": [
            {"name": "rt", "path": "/verif/harness/ntdrv", "serves_properties": sorted(p for p, v in CHECKS.items() if v[0] == "rt"), "kind_free_text": "runtime explorer: subject crates generated from the declaration grammar, driven through a type-erased interface, compared step by step with the reference model"},
            {"name": "cc", "path": "/verif/tools/ccengine.py", "serves_properties": sorted(p for p, v in CHECKS.items() if v[0] == "cc"), "kind_free_text": "compile-verdict explorer: rustc JSON diagnostics attributed per module, remove-and-rebuild fixpoint, probes run on the survivors"},
            {"name": "mx", "path": "/verif/harness/ntmx", "serves_properties": sorted(p for p, v in CHECKS.items() if v[0] in ("cc", "mx")), "kind_free_text": "macro explorer: nutype_macros compiled as a library (hook), expand_nutype called in-process over the declaration grammar"},
        ],
        "checks": checks,
        "not_applicable": na,
        "notes": "All checks are bounded exhaustive explorations (no sampling, no solver). known_findings.json lists genuine defects that are recorded rather than repaired, and the fix: commits made in /repo. See DESIGN.md.",
    }
    json.dump(man, open("/verif/MANIFEST.json", "w"), indent=1)
    print("MANIFEST.json written: %d checks, %d not claimed" % (len(checks), len(na)))

NOT_YET = {}

if __name__ == "__main__":
    main()
