#!/usr/bin/env python3
"""runauto.py [start] [end]: runs the mechanical mutants /verif/mutants/auto_*.diff (by index range).
For each: apply to /repo, build + baseline. If the build or the 211 tests fail the mutant is `killed-by-baseline`
(not interesting). Otherwise run the quick checks relevant to the mutated file and record who catches it.
Results: /verif/mutants/AUTO_RESULTS.json"""
import glob, json, os, re, subprocess, sys, time
RES = "/verif/mutants/AUTO_RESULTS.json"
results = json.load(open(RES)) if os.path.exists(RES) else {}
lo = int(sys.argv[1]) if len(sys.argv) > 1 else 0
hi = int(sys.argv[2]) if len(sys.argv) > 2 else 10**6

def relevant(name):
    if "parse-meta" in name or "parse-mod" in name or "parse-derive" in name:
        return ["C08", "C02", "C05", "C01"]
    if "validate" in name:
        return ["C08", "C12", "C03"]
    if "arbitrary" in name:
        return ["C09", "C14", "C12"]
    if "gen-tests" in name:
        return ["C08"]
    if "parse_error" in name or "gen-error" in name:
        return ["C16", "C06", "C15", "C07"]
    if "into_iter" in name:
        return ["C13", "C05"]
    if "common-gen-traits" in name or "gen-traits-mod" in name:
        return ["C03", "C04", "C06", "C10", "C13", "C05", "C12", "C15"]
    if "common-gen-mod" in name or "-gen-mod" in name:
        return ["C01", "C07", "C03", "C05", "C11", "C16"]
    if "models" in name:
        return ["C08", "C14", "C09", "C02", "C01"]
    return ["C01", "C08", "C05"]

def sh(cmd, **kw):
    return subprocess.run(cmd, capture_output=True, text=True, **kw)

for f in sorted(glob.glob("/verif/mutants/auto_*.diff")):
    name = os.path.basename(f)
    idx = int(name.split("_")[1])
    if idx < lo or idx > hi or name in results:
        continue
    if sh(["git", "-C", "/repo", "status", "--porcelain", "--untracked-files=no"]).stdout.strip():
        print("refusing: /repo dirty"); sys.exit(2)
    t0 = time.time()
    if sh(["git", "-C", "/repo", "apply", f]).returncode != 0:
        results[name] = {"status": "does-not-apply"}
        continue
    try:
        b = sh(["cargo", "build", "--offline", "-q", "-p", "nutype_macros", "--all-features"], cwd="/repo", env=dict(os.environ, CARGO_NET_OFFLINE="true"))
        if b.returncode != 0:
            results[name] = {"status": "does-not-compile"}
        else:
            bl = sh(["/verif/tools/baseline.sh"])
            if bl.returncode != 0:
                results[name] = {"status": "killed-by-baseline"}
            else:
                props = relevant(name)
                caught, mach = [], []
                for p in props:
                    c = sh(["/verif/check", p, "--tier", "quick"], cwd="/verif")
                    if c.returncode == 1:
                        caught.append(p)
                    elif c.returncode == 2:
                        mach.append(p)
                results[name] = {"status": "survives-baseline", "checks": props, "caught_by": caught, "machinery": mach}
    finally:
        sh(["git", "-C", "/repo", "reset", "-q"])
        sh(["git", "-C", "/repo", "checkout", "--", "."])
    results[name]["wall_s"] = round(time.time() - t0, 1)
    print(name, results[name], flush=True)
    json.dump(results, open(RES, "w"), indent=1)
