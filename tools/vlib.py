"""Orchestration for the nutype verification checks (stdlib only)."""
import fcntl
import hashlib
import json
import os
import re
import subprocess
import sys
import time

VERIF = "/verif"
REPO = "/repo"
TARGET = os.path.join(VERIF, ".target")
GEN = os.path.join(VERIF, "generated")
EVID = os.path.join(VERIF, "evidence")
REPLAYS = os.path.join(VERIF, "replays")
KNOWN = os.path.join(VERIF, "known_findings.json")

RT_PROPS = {"C01", "C03", "C04", "C06", "C07", "C09", "C10", "C11", "C12", "C13", "C14", "C16"}
CC_PROPS = {"C02", "C05", "C08", "C15"}


class Machinery(Exception):
    pass


def env():
    e = dict(os.environ)
    e["CARGO_NET_OFFLINE"] = "true"
    e["CARGO_TARGET_DIR"] = TARGET
    e.pop("RUSTFLAGS", None)
    e["CARGO_TERM_COLOR"] = "never"
    return e


def sh(cmd, cwd=None, check=True, capture=True, extra_env=None, timeout=None):
    e = env()
    if extra_env:
        e.update(extra_env)
    p = subprocess.run(cmd, cwd=cwd, env=e, stdout=subprocess.PIPE if capture else None, stderr=subprocess.STDOUT if capture else None, text=True, timeout=timeout)
    if check and p.returncode != 0:
        raise Machinery("command failed (%d): %s\n%s" % (p.returncode, " ".join(cmd), (p.stdout or "")[-6000:]))
    return p


class Lock:
    """exclusive lock around generation + build (generated/ and .target are shared)"""

    def __enter__(self):
        os.makedirs(VERIF, exist_ok=True)
        self.f = open(os.path.join(VERIF, ".lock"), "w")
        fcntl.flock(self.f, fcntl.LOCK_EX)
        return self

    def __exit__(self, *a):
        fcntl.flock(self.f, fcntl.LOCK_UN)
        self.f.close()


def build_harness():
    sh(["cargo", "build", "--release", "--offline", "-q"], cwd=os.path.join(VERIF, "harness"))


def cargo_json(cmd, cwd, extra_env=None):
    """run a cargo command with JSON diagnostics; return (returncode, [compiler-message dicts], raw tail)"""
    e = env()
    if extra_env:
        e.update(extra_env)
    p = subprocess.run(cmd + ["--message-format=json"], cwd=cwd, env=e, stdout=subprocess.PIPE, stderr=subprocess.PIPE, text=True)
    msgs = []
    for line in p.stdout.splitlines():
        if not line.startswith("{"):
            continue
        try:
            j = json.loads(line)
        except Exception:
            continue
        if j.get("reason") == "compiler-message":
            msgs.append(j)
    return p.returncode, msgs, p.stderr[-4000:]


def error_msgs(msgs):
    return [m for m in msgs if m["message"].get("level") in ("error", "error: internal compiler error")]


# ------------------------------------------------------------------------------------------------
# RT engine

def build_rt(tier, skip=()):
    """generate + build the runtime subject crates; returns the driver binary path. `skip`: subject indexes
    replaced by placeholders (they do not compile against the current tree; C08 reports that)"""
    out = os.path.join(GEN, tier, "rt")
    cmd = [os.path.join(TARGET, "release", "ntgen"), "rt", "--tier", tier, "--out", out]
    if skip:
        cmd += ["--skip", ",".join(str(i) for i in sorted(skip))]
    sh(cmd)
    rc, msgs, tail = cargo_json(["cargo", "build", "--release", "--offline", "-q"], cwd=out)
    if rc != 0:
        errs = error_msgs(msgs)
        return None, errs, tail
    return os.path.join(TARGET, "release", "rt%s_main" % tier[0]), [], ""


def subject_of_span(path, line):
    """map a line of a generated subject crate to its subject module index"""
    try:
        with open(path) as f:
            lines = f.readlines()
    except Exception:
        return None
    for k in range(min(line, len(lines)) - 1, -1, -1):
        m = re.match(r"pub mod s(\d+) \{", lines[k])
        if m:
            return int(m.group(1))
    return None


def subject_decl_text(path, idx):
    """the declaration (items + attribute + struct) of subject module `idx` in a generated subject crate"""
    try:
        with open(path) as f:
            lines = f.readlines()
    except Exception:
        return "subject %s" % idx
    out, on = [], False
    for l in lines:
        if re.match(r"pub mod s%d \{" % idx, l):
            on = True
            continue
        if on:
            if "#[nutype(" in l or out:
                out.append(l.strip())
            if re.search(r"struct Nt\d+", l):
                break
    return "\n".join(out) if out else "subject %s" % idx


def rt_build_failure(prop, tier, errs, tail):
    """The runtime pool holds only well-formed declarations of the documented grammar with glue that
    matches the error enum exhaustively. A compile error there is attributed:
      * inside `fn ename` (non-exhaustive / unknown variant)  -> C07 (variant set != declared validators)
      * anywhere else in a subject                             -> C08 (well-formed declaration refused)
    For other properties nothing can be decided: machinery exit."""
    out = os.path.join(GEN, tier, "rt")
    found = []
    for m in errs:
        msg = m["message"]
        spans = [s for s in msg.get("spans", []) if s.get("is_primary")] or msg.get("spans", [])
        for s in spans:
            path = os.path.join(out, s["file_name"]) if not os.path.isabs(s["file_name"]) else s["file_name"]
            idx = subject_of_span(path, s["line_start"])
            code = (msg.get("code") or {}).get("code")
            text = ""
            try:
                with open(path) as f:
                    text = f.readlines()[s["line_start"] - 1]
            except Exception:
                pass
            in_ename = "Error::" in text and "=>" in text or "match e" in text
            found.append({"subject": idx, "code": code, "message": msg["message"], "in_ename": in_ename, "file": path, "line": s["line_start"]})
    return found


def run_rt(prop, tier, only=None):
    excluded = set()
    c07_found = []
    with Lock():
        build_harness()
        binp, errs, tail = build_rt(tier)
        # Subjects whose crate does not compile against the current tree: that is a C08 matter ("well-formed
        # declaration refused", reported by ./check C08, which builds this very pool) or - when the error is in
        # the exhaustive match over the error variants - a C07 matter (variant set differs from the declared
        # validators). Every property is then decided on the subjects that do compile: the failing ones are
        # replaced by placeholders and the pool is rebuilt (at most 4 rounds).
        rounds = 0
        while binp is None and rounds < 4:
            rounds += 1
            found = rt_build_failure(prop, tier, errs, tail)
            c07_found += [f for f in found if f["in_ename"] and f["subject"] is not None]
            bad = set(f["subject"] for f in found if f["subject"] is not None)
            if not bad or bad <= excluded:
                break
            excluded |= bad
            binp, errs, tail = build_rt(tier, skip=excluded)
    if binp is None:
        found = rt_build_failure(prop, tier, errs, tail)
        raise Machinery("the runtime subject pool does not compile against the current tree (%d errors) and the failing subjects cannot be isolated; property %s cannot be decided; first: %s\n%s" % (len(found), prop, found[0] if found else "?", tail[-1500:]))
    outp = os.path.join(GEN, tier, "report_%s.json" % prop)
    cmd = [binp, prop, "--tier", tier, "--out", outp]
    if only is not None:
        cmd += ["--only", str(only)]
    p = subprocess.run(cmd, env=env(), stdout=subprocess.PIPE, stderr=subprocess.PIPE, text=True)
    sys.stderr.write(p.stderr[-3000:])
    if p.returncode == 3:
        m = re.search(r"WATCHDOG property=(\S+) case=(.*)", p.stdout)
        rep = {"property": prop, "tier": tier, "subjects": 0, "evaluations": 1, "states": 1, "transitions": 1, "traces_validated_against_impl": 1, "distinct_nontrivial": 1, "histogram": {}, "samples": [m.group(0) if m else "watchdog"], "violations": [], "violation_count": 1, "exhaustive": False, "bounds": {}, "notes": ["watchdog fired"], "rule": "", "machinery_errors": [], "wall_s": 0.0}
        if not m:
            raise Machinery("watchdog without a case")
        rep["violations"].append({"property": prop, "subject": -1, "decl": m.group(2), "shape": "watchdog", "entry": "watchdog", "input": m.group(2), "expected": "terminates", "observed": "no result after the wall limit", "class": "hang"})
        return rep
    if p.returncode != 0:
        raise Machinery("driver failed (%d): %s" % (p.returncode, p.stderr[-3000:]))
    with open(outp) as f:
        rep = json.load(f)
    if prop == "C07":
        seen = set()
        for f in c07_found:
            if f["subject"] in seen:
                continue
            seen.add(f["subject"])
            rep["violations"].append({"property": "C07", "subject": f["subject"], "decl": subject_decl_text(f["file"], f["subject"]), "shape": "rt-pool", "entry": "rustc", "input": "%s:%s" % (f["file"], f["line"]), "expected": "the error enum has exactly one variant per declared validator (exhaustive match without wildcard compiles)", "observed": "%s %s" % (f["code"], f["message"]), "class": "variant-set-differs"})
            rep["violation_count"] = rep.get("violation_count", 0) + 1
    if excluded:
        rep.setdefault("notes", []).append("%d subject(s) of the runtime pool do not compile against this tree and were excluded from this exploration (%s); that refusal is reported by ./check C08" % (len(excluded), ", ".join("Nt%d" % i for i in sorted(excluded)[:20])))
        rep.setdefault("histogram", {})["subjects-excluded-not-compiling"] = len(excluded)
        rep["exhaustive"] = False
    return rep


# ------------------------------------------------------------------------------------------------
# known findings, evidence, verdict

def load_known():
    if not os.path.exists(KNOWN):
        return []
    with open(KNOWN) as f:
        return json.load(f)


def matches_known(v, known):
    for k in known:
        if k.get("status") != "known":
            continue
        if k.get("property") != v["property"]:
            continue
        ok = True
        for field, key in (("class", "class_regex"), ("shape", "shape_regex"), ("entry", "entry_regex"), ("input", "input_regex"), ("decl", "decl_regex"), ("observed", "observed_regex")):
            rx = k.get(key)
            if rx is not None and not re.fullmatch(rx, v.get(field, ""), re.S):
                ok = False
                break
        if ok:
            return k
    return None


def write_replay(v, tier):
    os.makedirs(REPLAYS, exist_ok=True)
    h = hashlib.sha1(json.dumps(v, sort_keys=True).encode()).hexdigest()[:12]
    path = os.path.join(REPLAYS, "%s-%s.json" % (v["property"], h))
    body = dict(v)
    body["tier"] = tier
    body["replay_cmd"] = "./check %s --replay %s" % (v["property"], path)
    with open(path, "w") as f:
        json.dump(body, f, indent=1)
    return path


LEVEL_TEXT = "model_checking"


def finish(prop, tier, rep, t0, assumptions=None, extra_cov=None):
    known = load_known()
    new, kn = [], {}
    for v in rep["violations"]:
        k = matches_known(v, known)
        if k is None:
            new.append(v)
        else:
            kn.setdefault(k["id"], []).append(v)
    # violations beyond the recorded cap are of the recorded kinds (cap is per subject/entry/class)
    lines = []
    for kid, vs in sorted(kn.items()):
        k = next(x for x in known if x["id"] == kid)
        lines.append("KNOWN-FINDING: property=%s %s [%d recorded occurrence(s), e.g. %s on input %s]" % (prop, k["what"], len(vs), vs[0]["shape"], vs[0]["input"][:80]))
    seen = set()
    vio_lines = []
    for v in new:
        key = (v["entry"], v["class"], re.sub(r"\bval=.*", "", v["shape"]))
        if key in seen:
            continue
        seen.add(key)
        path = write_replay(v, tier)
        vio_lines.append("VIOLATION property=%s replay=%s" % (prop, path))
        sys.stderr.write("  %s | %s | %s | input %s | expected %s | observed %s\n" % (v["class"], v["entry"], v["shape"], v["input"][:100], v["expected"][:120], v["observed"][:200]))
        if len(vio_lines) >= 12:
            break
    cov = {
        "states": int(rep.get("states", 0)),
        "transitions": int(rep.get("transitions", 0)),
        "traces_validated_against_impl": int(rep.get("traces_validated_against_impl", 0)),
        "evaluations": int(rep.get("evaluations", 0)),
        "distinct_nontrivial": int(rep.get("distinct_nontrivial", 0)),
        "rule": rep.get("rule", ""),
        "samples": rep.get("samples", [])[:12] or ["(no sample recorded)"],
        "exhaustive": bool(rep.get("exhaustive", False)),
        "subjects": rep.get("subjects", 0),
        "outcome_histogram": rep.get("histogram", {}),
        "bounds": rep.get("bounds", {}),
        "notes": rep.get("notes", []),
        "known_findings_reported": sorted(kn.keys()),
        "violations_recorded": len(rep["violations"]),
        "violations_total": int(rep.get("violation_count", 0)),
    }
    if extra_cov:
        cov.update(extra_cov)
    ev = {
        "property_id": prop,
        "tier": tier,
        "seed": int(os.environ.get("VERIF_SEED", "0") or 0),
        "level": LEVEL_TEXT,
        "coverage": cov,
        "assumptions": assumptions or [],
        "wall_s": round(time.time() - t0, 2),
        "violations": len(new),
    }
    os.makedirs(EVID, exist_ok=True)
    with open(os.path.join(EVID, "%s.json" % prop), "w") as f:
        json.dump(ev, f, indent=1)
    for l in lines:
        print(l)
    for l in vio_lines:
        print(l)
    merrs = rep.get("machinery_errors", [])
    if merrs:
        for m in merrs[:10]:
            sys.stderr.write("MACHINERY: %s\n" % m)
    if cov["states"] < 1 or cov["transitions"] < 1:
        sys.stderr.write("MACHINERY: vacuous run (no states / transitions explored)\n")
        return 2
    if vio_lines:
        return 1
    if merrs:
        return 2
    print("OK property=%s tier=%s states=%d transitions=%d evaluations=%d known_findings=%d wall=%.1fs" % (prop, tier, cov["states"], cov["transitions"], cov["evaluations"], len(kn), time.time() - t0))
    return 0


RT_ASSUMPTIONS = [
    "REF (ntcore::refsem) is the reading of the declaration; NaN violates only `finite` (DESIGN 6.1)",
    "custom functions come from ulib and are total and pure; Unicode case/whitespace tables are std's on both sides",
    "rustc 1.95 x86_64 host; third-party crates (serde_json, ron, rmp-serde, arbitrary) as pinned in Cargo.lock",
    "wide integers and f64 are covered on pivots/neighbourhoods, not the whole type (DESIGN 9)",
]


def replay(prop, path):
    with open(path) as f:
        v = json.load(f)
    tier = v.get("tier", "quick")
    if prop in RT_PROPS and isinstance(v.get("subject"), int) and v["subject"] >= 0:
        reps = []
        for _ in range(2):
            rep = run_rt(prop, tier, only=v["subject"])
            reps.append(sorted((x["entry"], x["class"], x["input"]) for x in rep["violations"]))
        if reps[0] != reps[1]:
            raise Machinery("replay is not deterministic")
        hit = [x for x in reps[0] if x[0] == v["entry"] and x[1] == v["class"]]
        print("REPLAY property=%s subject=%s entry=%s class=%s reproduced=%s (%d violations on that subject)" % (prop, v["subject"], v["entry"], v["class"], bool(hit), len(reps[0])))
        print(v["decl"])
        return 1 if hit else 0
    import ccengine
    return ccengine.replay(prop, v)


def main(argv):
    if not argv:
        print(__doc__)
        return 2
    prop = argv[0]
    tier = os.environ.get("VERIF_TIER", "quick")
    rp = None
    k = 1
    while k < len(argv):
        if argv[k] == "--tier":
            tier = argv[k + 1]
            k += 1
        elif argv[k] == "--replay":
            rp = argv[k + 1]
            k += 1
        k += 1
    t0 = time.time()
    try:
        if rp:
            return replay(prop, rp)
        if prop in RT_PROPS:
            rep = run_rt(prop, tier)
            if prop == "C09" and rep.get("subjects", 0) > 0:
                import ccengine
                ccengine.run_c09x(tier, rep)
            if prop == "C03" and rep.get("subjects", 0) > 0:
                import ccengine
                ccengine.run_c03x(tier, rep)
            if prop == "C14" and rep.get("subjects", 0) > 0:
                import ccengine
                ccengine.run_c14x(tier, rep)
            if prop == "C12" and rep.get("subjects", 0) > 0:
                # permission part ("only permitted together with finite"): in-process expansion of every
                # finite-less float declaration x every derive set containing Eq or Ord
                import ccengine
                with Lock():
                    mx = ccengine.run_mx("c12", tier)
                ccengine.merge(rep, mx)
                rep["rule"] = rep.get("rule", "") + " | MX: every float declaration spelling without `finite` x every derive subset (bounded size) containing Eq or Ord is expanded in-process and must be refused by the macro; non-vacuity: the same subsets granted once `finite` is declared are counted"
            return finish(prop, tier, rep, t0, RT_ASSUMPTIONS)
        if prop in CC_PROPS:
            import ccengine
            return ccengine.run(prop, tier, t0)
        if prop == "setup":
            with Lock():
                build_harness()
                for tr in ("quick",):
                    binp, errs, tail = build_rt(tr)
                    if binp is None:
                        sys.stderr.write("setup: runtime pool does not build: %s\n" % tail[-2000:])
                        return 2
            import ccengine
            ccengine.setup()
            return 0
        sys.stderr.write("unknown property %s\n" % prop)
        return 2
    except Machinery as e:
        sys.stderr.write("MACHINERY FAILURE: %s\n" % e)
        return 2
