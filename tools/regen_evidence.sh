#!/bin/bash
# Re-runs every quick check on /repo's current (clean) tree so that evidence/*.json is quick-tier evidence
# written by this tree. Refuses to run when /repo has uncommitted changes to tracked files.
cd /verif || exit 2
if [ -n "$(git -C /repo status --porcelain --untracked-files=no)" ]; then echo "refusing: /repo is dirty"; exit 2; fi
rc=0
for p in C01 C02 C03 C04 C05 C06 C07 C08 C09 C10 C11 C12 C13 C14 C15 C16; do
  ./check $p --tier quick 2>/tmp/regen_$p.err | tail -1 | cut -c1-170
  e=${PIPESTATUS[0]}
  if [ $e -ne 0 ]; then echo "  !! $p exit=$e"; rc=1; fi
done
exit $rc
