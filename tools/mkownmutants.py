#!/usr/bin/env python3
"""Hand-picked property-breaking mutants from DESIGN section 4 ("Mutants it must catch"), one per property where possible.
Writes /verif/mutants/own_<prop>_<slug>.diff against /repo HEAD. Nothing is applied."""
import difflib, os, subprocess
REPO="/repo"; OUT="/verif/mutants"
def head(path): return subprocess.run(["git","-C",REPO,"show","HEAD:"+path],capture_output=True,text=True).stdout
M=[
 ("C01","int_less_off_by_one","nutype_macros/src/integer/gen/mod.rs","                        if val >= #exclusive_upper_bound {","                        if val > #exclusive_upper_bound {"),
 ("C01","float_finite_is_nan_only","nutype_macros/src/float/gen/mod.rs","                        if !val.is_finite() {","                        if val.is_nan() {"),
 ("C01","string_len_bytes","nutype_macros/src/string/gen/mod.rs","                let chars_count = val.chars().count();","                let chars_count = val.len();"),
 ("C01","trim_ascii_only","nutype_macros/src/string/gen/mod.rs","                        let value: String = value.trim().to_string();","                        let value: String = value.trim_matches(|c: char| c.is_ascii_whitespace()).to_string();"),
 ("C03","tryfrom_infallible_skips_sanitizers","nutype_macros/src/common/gen/traits.rs","                        Ok(Self::new(raw_value))\n                    }\n                }\n            }\n        }\n    }\n}\n\n/// Generate implementation of FromStr trait","                        Ok(Self(raw_value.into()))\n                    }\n                }\n            }\n        }\n    }\n}\n\n/// Generate implementation of FromStr trait"),
 ("C04","deserialize_wraps_when_no_validation","nutype_macros/src/common/gen/traits.rs","            Ok(#type_name::new(raw_value))\n        }\n    };\n\n    let expecting_str","            Ok(#type_name(raw_value.into()))\n        }\n    };\n\n    let expecting_str"),
 ("C05","deref_mut_added","nutype_macros/src/common/gen/traits.rs","            fn deref(&self) -> &Self::Target {                                       //     fn deref(&self) -> &Self::Target {\n                &self.0                                                              //         &self.0\n            }                                                                        //     }\n        }                                                                            // }\n","            fn deref(&self) -> &Self::Target {                                       //     fn deref(&self) -> &Self::Target {\n                &self.0                                                              //         &self.0\n            }                                                                        //     }\n        }                                                                            // }\n        impl #generics ::core::ops::DerefMut for #type_name #generics_without_bounds {\n            fn deref_mut(&mut self) -> &mut Self::Target {\n                &mut self.0\n            }\n        }\n"),
 ("C05","new_unchecked_safe","nutype_macros/src/common/gen/new_unchecked.rs","                pub #const_fn unsafe fn new_unchecked(","                pub #const_fn fn new_unchecked("),
 ("C05","reexport_always_pub","nutype_macros/src/common/gen/mod.rs","        #vis use #module_name::#type_name;","        pub use #module_name::#type_name;"),
 ("C06","parse_error_trimmed_input","nutype_macros/src/common/gen/traits.rs","                    let raw_value: #inner_type = raw_string.parse().map_err(#parse_error_type_name::Parse)?;","                    let raw_value: #inner_type = raw_string.trim().parse().map_err(#parse_error_type_name::Parse)?;"),
 ("C07","extra_error_variant","nutype_macros/src/integer/gen/error.rs","        pub enum #error_type_path {\n            #error_variants\n        }","        pub enum #error_type_path {\n            #error_variants\n            Unknown,\n        }"),
 ("C10","serialize_as_tuple_struct","nutype_macros/src/common/gen/traits.rs","                ::serde::ser::Serializer::serialize_newtype_struct(serializer, #type_name_str, &self.0)","                {\n                    use ::serde::ser::SerializeTupleStruct;\n                    let mut ts = ::serde::ser::Serializer::serialize_tuple_struct(serializer, #type_name_str, 1)?;\n                    ts.serialize_field(&self.0)?;\n                    ts.end()\n                }"),
 ("C13","borrow_str_trimmed","nutype_macros/src/string/gen/traits/mod.rs","    let impl_borrow_str = gen_impl_trait_borrow(type_name, &generics, quote!(str));","    let impl_borrow_str = quote! {\n        impl ::core::borrow::Borrow<str> for #type_name {\n            #[inline]\n            fn borrow(&self) -> &str {\n                self.0.trim_start()\n            }\n        }\n    };"),
 ("C14","less_minus_two","nutype_macros/src/integer/gen/traits/arbitrary.rs","boundary.max = quote!((#lt) - 1);","boundary.max = quote!((#lt) - 2);"),
 ("C15","std_error_path","nutype_macros/src/common/gen/error.rs","                    let error = quote! { ::core::error::Error };","                    let error = quote! { ::std::error::Error };"),
 ("C16","integer_texts_swapped","nutype_macros/src/integer/gen/error.rs","The value must be greater than {:#?}.","The value must be greater or equal to {:#?}."),
 ("C11","display_debug_format","nutype_macros/src/common/gen/traits.rs","                    use ::core::fmt::Display;\n                    val.fmt(f)","                    write!(f, \"{:?}\", format_args!(\"{}\", val).to_string())"),
 ("C12","ord_with_bounds_no_finite","nutype_macros/src/float/validate.rs","                .any(|v| v.kind() == FloatValidatorKind::Finite),","                .any(|v| v.kind() == FloatValidatorKind::Finite || v.kind() == FloatValidatorKind::Less),"),
]
def main():
    for f in os.listdir(OUT):
        if f.startswith("own_"): os.remove(os.path.join(OUT,f))
    n=0
    for prop,slug,path,old,new in M:
        if old==new: continue
        src=head(path)
        if old not in src:
            print("SITE NOT FOUND:",prop,slug); continue
        mut=src.replace(old,new,1)
        d="".join(difflib.unified_diff(src.splitlines(True),mut.splitlines(True),"a/"+path,"b/"+path))
        open(os.path.join(OUT,"own_%s_%s.diff"%(prop,slug)),"w").write(d); n+=1
    print("wrote",n)
main()
