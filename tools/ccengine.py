"""Compile-verdict explorer: every case is a tiny module; rustc's JSON diagnostics are attributed to
the enclosing module by span; rejected modules are blanked and the build is repeated until it is clean
(rustc reports expansion, resolution, type and borrow errors in different passes). Survivors' probes are
then executed and compared with the expectations REF wrote into cases.json."""
import json
import os
import re
import subprocess
import sys
import time

import vlib
from vlib import GEN, TARGET, Machinery

NTGEN = os.path.join(TARGET, "release", "ntgen")
NTMX = os.path.join(TARGET, "release", "ntmx")


def gen(variant, tier, ncrates=16):
    out = os.path.join(GEN, tier, "cc_%s" % variant)
    vlib.sh([NTGEN, "cc", "--prop", variant, "--tier", tier, "--out", out, "--crates", str(ncrates)])
    with open(os.path.join(out, "cases.json")) as f:
        doc = json.load(f)
    return out, doc


def src_file(out, case, nostd):
    return os.path.join(out, case["crate"], "src", "lib.rs" if nostd else "main.rs")


def blank_case(out, case, nostd):
    path = src_file(out, case, nostd)
    with open(path) as f:
        lines = f.readlines()
    for k in range(case["line_start"] - 1, case["line_end"]):
        lines[k] = "\n"
    tag = "// @call %d\n" % case["id"]
    lines = ["\n" if l.endswith(tag) else l for l in lines]
    with open(path, "w") as f:
        f.writelines(lines)


def from_macro(span):
    e = span.get("expansion")
    while e:
        if "nutype" in (e.get("macro_decl_name") or ""):
            return True
        e = (e.get("span") or {}).get("expansion")
    return False


def fixpoint(out, doc, mode="check", max_rounds=10):
    """returns {case id: {"status", "round", "errors": [(code, message, from_macro)]}}"""
    nostd = doc["nostd"]
    cases = doc["cases"]
    by_crate = {}
    for c in cases:
        by_crate.setdefault(c["crate"], []).append(c)
    res = {c["id"]: {"status": "accepted", "round": None, "errors": []} for c in cases}
    cmd = {"check": ["cargo", "check", "--offline", "-q"], "build": ["cargo", "build", "--offline", "-q"], "test": ["cargo", "test", "--offline", "-q", "--no-run"]}[mode]
    rounds = 0
    while True:
        rounds += 1
        rc, msgs, tail = vlib.cargo_json(cmd, cwd=out)
        errs = vlib.error_msgs(msgs)
        if rc == 0 and not errs:
            break
        if rounds > max_rounds:
            raise Machinery("compile-verdict fixpoint did not converge in %d rounds" % max_rounds)
        newly = set()
        unattributed = []
        for m in errs:
            msg = m["message"]
            if not msg.get("spans"):
                continue
            crate = m.get("target", {}).get("name")
            spans = [s for s in msg["spans"] if s.get("is_primary")] + [s for s in msg["spans"] if not s.get("is_primary")]
            hit = None
            for s in spans:
                fn = s["file_name"]
                cr = fn.split("/")[0] if not os.path.isabs(fn) else None
                if cr is None:
                    mm = re.search(r"/(\w+)/src/(main|lib)\.rs$", fn)
                    cr = mm.group(1) if mm else None
                for c in by_crate.get(cr, []):
                    if c["line_start"] <= s["line_start"] <= c["line_end"]:
                        hit = (c, s)
                        break
                if hit:
                    break
            if hit is None:
                unattributed.append((crate, msg["message"], [(s["file_name"], s["line_start"]) for s in spans][:2]))
                continue
            c, s = hit
            r = res[c["id"]]
            code = (msg.get("code") or {}).get("code")
            r["errors"].append((code, msg["message"], code is None and from_macro(s)))
            if r["status"] == "accepted":
                r["status"] = "rejected"
                r["round"] = rounds
                newly.add(c["id"])
        if not newly:
            raise Machinery("build fails but no error can be attributed to a case module: %s\n%s" % (unattributed[:3], tail[-1500:]))
        for cid in newly:
            blank_case(out, cases[cid], nostd)
    return res, rounds


def run_probes(out, doc, res):
    """build and run every crate; returns {case id: [observed probe strings]}"""
    rc, msgs, tail = vlib.cargo_json(["cargo", "build", "--offline", "-q"], cwd=out)
    if rc != 0:
        # a later pass (codegen / const-eval) found more: continue the fixpoint in build mode
        raise Machinery("probe build failed after the check fixpoint: %s" % tail[-2000:])
    obs = {}
    crates = sorted(set(c["crate"] for c in doc["cases"]))
    for cr in crates:
        binp = os.path.join(TARGET, "debug", cr)
        if not os.path.exists(binp):
            continue
        p = subprocess.run([binp], stdout=subprocess.PIPE, stderr=subprocess.PIPE, text=True)
        if p.returncode != 0:
            # a panic inside a probe: attribute via the last probe line printed? probes never panic by
            # construction (try_new returns Result); treat as machinery
            raise Machinery("probe binary %s exited with %d: %s" % (cr, p.returncode, p.stderr[-1500:]))
        for line in p.stdout.splitlines():
            if line.startswith("PROBE\t"):
                _, cid, k, text = line.split("\t", 3)
                obs.setdefault(int(cid), {})[int(k)] = text
    return obs


def mx_bind(doc, features):
    """run every case that carries (attrs, item) through the in-process macro; {id: (accept, message)}"""
    items = [{"id": c["id"], "attrs": c["mx"]["attrs"], "item": c["mx"]["item"]} for c in doc["cases"] if c.get("mx")]
    p = subprocess.run([NTMX, "bind", "--features", features], input=json.dumps(items), stdout=subprocess.PIPE, stderr=subprocess.PIPE, text=True, env=vlib.env())
    if p.returncode != 0:
        raise Machinery("ntmx bind failed: %s" % p.stderr[-2000:])
    out = {}
    for r in json.loads(p.stdout):
        out[r["id"]] = (r["accept"], r.get("message", ""))
    return out


def check_binding(doc, res, mx, rep):
    """MX's in-process verdict must equal the real proc macro's verdict under rustc for every shared case."""
    n = 0
    for c in doc["cases"]:
        if c["id"] not in mx:
            continue
        accept, message = mx[c["id"]]
        r = res[c["id"]]
        macro_errs = [e for e in r["errors"] if e[2]]
        # a module that also contains harness code can be rejected for other reasons; the macro verdict is
        # "rejected by the macro" iff a macro-originated error exists
        cc_macro_reject = bool(macro_errs)
        n += 1
        if accept == cc_macro_reject:
            # disagreement: only meaningful when rustc got as far as expanding the macro
            if r["status"] == "rejected" and not macro_errs and not accept:
                # rustc stopped earlier (e.g. unresolved import) – cannot compare
                continue
            rep["machinery_errors"].append("MX/CC disagreement on case %d (%s): in-process accept=%s message=%r, rustc macro errors=%r" % (c["id"], c["text"][:120], accept, message[:100], [e[1][:100] for e in macro_errs][:2]))
        elif not accept and macro_errs:
            first = macro_errs[0][1].strip().splitlines()[0] if macro_errs[0][1].strip() else ""
            if message.strip().splitlines()[0:1] != [first]:
                # rustc may report several macro errors; accept if any matches
                if not any(message.strip().splitlines()[0:1] == e[1].strip().splitlines()[0:1] for e in macro_errs):
                    # Both sides refuse, with different first messages: a declaration with two independent reasons
                    # (e.g. Arbitrary on a validated custom type AND Default without `default =`) - which one the macro
                    # reports first depends on the iteration order of a HashSet of traits, i.e. on the process. The
                    # binding that matters is the verdict; the difference is recorded, not treated as a failure.
                    hist(rep, "binding:both-refuse-with-different-first-message")
                    if not any(n.startswith("MX/CC first messages differ") for n in rep["notes"]):
                        rep["notes"].append("MX/CC first messages differ on case %d (both refuse): %r vs %r" % (c["id"], message[:100], first[:100]))
    return n


def new_report(prop, tier):
    return {"property": prop, "tier": tier, "subjects": 0, "evaluations": 0, "states": 0, "transitions": 0, "traces_validated_against_impl": 0, "distinct_nontrivial": 0, "histogram": {}, "samples": [], "violations": [], "violation_count": 0, "exhaustive": True, "bounds": {}, "notes": [], "rule": "", "machinery_errors": [], "wall_s": 0.0}


def hist(rep, k, n=1):
    rep["histogram"][k] = rep["histogram"].get(k, 0) + n


def violate(rep, prop, case, cls, expected, observed, entry="rustc"):
    rep["violation_count"] += 1
    rep["violations"].append({"property": prop, "subject": case["id"], "decl": case["text"], "shape": "%s:%s" % (case["kind"], case["class"]), "entry": entry, "input": case["text"][:300], "expected": expected, "observed": observed, "class": cls})


def judge_verdicts(prop, doc, res, rep, accept_cls="rejected-but-must-accept", reject_cls="accepted-but-must-reject"):
    cases = doc["cases"]
    for c in cases:
        r = res[c["id"]]
        rep["evaluations"] += 1
        rep["transitions"] += 1
        rep["states"] += 1
        hist(rep, "%s/%s:%s" % (c["kind"], c["expect"], r["status"]))
        errtxt = "; ".join("%s %s" % (e[0] or "macro", e[1].splitlines()[0][:140]) for e in r["errors"][:2])
        if c["kind"] == "use":
            owner = cases[c["belongs_to"]]
            if res[owner["id"]]["status"] == "accepted" and r["status"] == "rejected":
                violate(rep, prop, c, "derive-block-dropped", "every trait of every derive(..) block exists (or the declaration is refused)", "declaration accepted but: " + errtxt)
            continue
        if c.get("belongs_to") is not None and res[cases[c["belongs_to"]]["id"]]["status"] == "rejected":
            continue
        if c["expect"] == "accept" and r["status"] == "rejected":
            if c["kind"] == "control":
                rep["machinery_errors"].append("control case %d failed to compile (%s): %s" % (c["id"], c["text"][:120], errtxt))
            else:
                violate(rep, prop, c, accept_cls, "compiles", "rejected: " + errtxt)
        elif c["expect"] == "reject" and r["status"] == "accepted":
            violate(rep, prop, c, reject_cls, "rejected at compile time (class %s)" % c["class"], "compiles")
        if c["expect"] in ("reject", "either") or r["status"] == "rejected":
            rep["distinct_nontrivial"] += 1


def run_c08(tier, t0):
    rep = new_report("C08", tier)
    out, doc = gen("C08", tier)
    res, rounds = fixpoint(out, doc, "check")
    judge_verdicts("C08", doc, res, rep)
    rep["notes"].append("compile-verdict fixpoint converged in %d rounds over %d cases" % (rounds, len(doc["cases"])))
    mx = mx_bind(doc, "all")
    rep["traces_validated_against_impl"] += check_binding(doc, res, mx, rep)
    for c in doc["cases"][:: max(1, len(doc["cases"]) // 6)][:6]:
        rep["samples"].append({"case": c["text"][:200], "expect": c["expect"], "class": c["class"], "rustc": res[c["id"]]["status"], "first_error": (res[c["id"]]["errors"] or [[None, ""]])[0][1][:160]})
    # generated tests for expression-valued bounds / defaults
    out2, doc2 = gen("C08T", tier, 1)
    res2, _ = fixpoint(out2, doc2, "test")
    for c in doc2["cases"]:
        if res2[c["id"]]["status"] == "rejected":
            violate(rep, "C08", c, "rejected-but-must-accept", "compiles (expression bounds cannot be evaluated by the macro)", "rejected: %s" % res2[c["id"]]["errors"][0][1][:160])
    p = subprocess.run(["cargo", "test", "--offline", "--", "--test-threads", "8"], cwd=out2, env=vlib.env(), stdout=subprocess.PIPE, stderr=subprocess.STDOUT, text=True)
    status = {}
    for line in p.stdout.splitlines():
        m = re.match(r"test (m\d+)::.*::tests::(\w+) \.\.\. (\w+)", line)
        if m:
            status[(m.group(1), m.group(2))] = m.group(3)
    for c in doc2["cases"]:
        if res2[c["id"]]["status"] != "accepted":
            continue
        for t in c["tests"]:
            st = status.get(("m%d" % c["id"], t["name"]))
            rep["evaluations"] += 1
            rep["transitions"] += 1
            rep["states"] += 1
            rep["distinct_nontrivial"] += 1
            hist(rep, "generated-test:%s:%s" % ("must-fail" if t["must_fail"] else "must-pass", st))
            if t["must_fail"] and st != "FAILED":
                violate(rep, "C08", c, "generated-test-does-not-fail", "generated test %s fails (REF: contradictory bounds / invalid default)" % t["name"], "test result: %s" % st, entry="cargo test")
            if not t["must_fail"] and st == "FAILED":
                violate(rep, "C08", c, "generated-test-fails-on-consistent", "generated test %s passes" % t["name"], "FAILED", entry="cargo test")
    if doc2["cases"]:
        c = doc2["cases"][1]
        rep["samples"].append({"case": c["text"][:200], "generated_test": c["tests"], "result": status.get(("m%d" % c["id"], c["tests"][0]["name"]))})
    # the feature-gated reject classes need a build of nutype without features
    out3, doc3 = gen("C05N", tier, 1)
    res3, _ = fixpoint(out3, doc3, "check")
    gated = {"cases": [c for c in doc3["cases"] if c["class"].startswith("gated")], "nostd": False}
    for c in gated["cases"]:
        r = res3[c["id"]]
        rep["evaluations"] += 1
        rep["states"] += 1
        rep["transitions"] += 1
        rep["distinct_nontrivial"] += 1
        hist(rep, "nofeature/%s:%s" % (c["expect"], r["status"]))
        if r["status"] == "accepted":
            violate(rep, "C08", c, "accepted-but-must-reject", "rejected (feature off)", "compiles")
    mx3 = mx_bind(doc3, "none")
    rep["traces_validated_against_impl"] += check_binding(doc3, res3, mx3, rep)
    # the runtime subject pool holds only well-formed declarations of the documented grammar (it is what the
    # runtime explorers run on): every one of them must be accepted, i.e. its expansion must compile
    binp, errs, tail = vlib.build_rt(tier)
    nsub = 0
    import glob
    for lib in glob.glob(os.path.join(GEN, tier, "rt", "rt*", "src", "lib.rs")):
        with open(lib) as f:
            nsub += len(re.findall(r"^pub mod s\d+ \{", f.read(), re.M))
    rep["evaluations"] += nsub
    rep["states"] += nsub
    rep["transitions"] += nsub
    hist(rep, "rt-pool-subjects-compiled", nsub)
    if binp is None:
        found = vlib.rt_build_failure("C08", tier, errs, tail)
        seen = set()
        for f in found:
            if f["in_ename"] or f["subject"] is None or f["subject"] in seen:
                continue
            seen.add(f["subject"])
            decl = vlib.subject_decl_text(f["file"], f["subject"])
            c = {"id": f["subject"], "text": decl, "class": "rt-pool", "kind": "decl", "expect": "accept"}
            violate(rep, "C08", c, "rejected-but-must-accept", "well-formed declaration of the runtime pool compiles", "%s %s" % (f["code"], f["message"][:200]), entry="rustc (runtime pool)")
        if not seen and not any(f["in_ename"] for f in found):
            raise Machinery("runtime pool does not build and no error can be attributed to a subject: %s" % tail[-1500:])
    # MX: the combinatorial space in-process
    mxrep = run_mx("c08", tier)
    merge(rep, mxrep)
    rep["rule"] = "CC: every case of the bounded declaration grammar (reject classes per family, literal bounds in every relative position, struct shapes, names that generated code uses, derive subsets of size <= 2, generic types with bounds) is compiled by the real proc macro + rustc; verdicts are attributed per module and iterated to a fixpoint; REF's admissibility predicate says MustReject / MustAccept / Either. Generated #[test]s for expression-valued bounds and defaults are run with cargo test. MX: the full derive-subset space per (family, guard shape) and attribute error classes are expanded in-process and compared with the same predicate; MX verdicts are bound to rustc's on every CC case. non-trivial = cases that are rejected or whose expectation is reject/either"
    return vlib.finish("C08", tier, rep, t0, CC_ASSUMPTIONS)


def merge(rep, o):
    for k in ("evaluations", "states", "transitions", "traces_validated_against_impl", "distinct_nontrivial", "violation_count", "subjects"):
        rep[k] += o.get(k, 0)
    for k, v in o.get("histogram", {}).items():
        rep["histogram"]["mx:" + k] = rep["histogram"].get("mx:" + k, 0) + v
    rep["violations"].extend(o.get("violations", []))
    rep["samples"].extend(o.get("samples", [])[:4])
    rep["notes"].extend(o.get("notes", []))
    rep["machinery_errors"].extend(o.get("machinery_errors", []))
    rep["exhaustive"] = rep["exhaustive"] and o.get("exhaustive", True)
    for k, v in o.get("bounds", {}).items():
        rep["bounds"]["mx:" + k] = v


def run_mx(mode, tier):
    outp = os.path.join(GEN, tier, "mx_%s.json" % mode)
    os.makedirs(os.path.dirname(outp), exist_ok=True)
    p = subprocess.run([NTMX, mode, "--tier", tier, "--out", outp], stdout=subprocess.PIPE, stderr=subprocess.PIPE, text=True, env=vlib.env())
    sys.stderr.write(p.stderr[-1500:])
    if p.returncode != 0:
        raise Machinery("ntmx %s failed: %s" % (mode, p.stderr[-2000:]))
    with open(outp) as f:
        return json.load(f)


def run_c05(tier, t0):
    rep = new_report("C05", tier)
    out, doc = gen("C05", tier)
    res, rounds = fixpoint(out, doc, "check")
    judge_verdicts("C05", doc, res, rep, reject_cls="bypass-compiles")
    rep["notes"].append("attack catalogue: fixpoint converged in %d rounds over %d programs" % (rounds, len(doc["cases"])))
    codes = {}
    for c in doc["cases"]:
        if c["kind"] == "attack":
            for e in res[c["id"]]["errors"][:1]:
                codes[e[0] or "macro"] = codes.get(e[0] or "macro", 0) + 1
    rep["histogram"]["attack-error-codes"] = codes
    for c in [c for c in doc["cases"] if c["kind"] == "attack"][:: max(1, len(doc["cases"]) // 8)][:5]:
        rep["samples"].append({"program": c["text"][:260], "class": c["class"], "rustc": res[c["id"]]["status"], "first_error": (res[c["id"]]["errors"] or [[None, ""]])[0][:2]})
    out3, doc3 = gen("C05N", tier, 1)
    res3, _ = fixpoint(out3, doc3, "check")
    sub = {"cases": [c for c in doc3["cases"] if not c["class"].startswith("gated")], "nostd": False}
    # ids index into the full list; judge on the full doc but only for the selected cases
    for c in sub["cases"]:
        r = res3[c["id"]]
        rep["evaluations"] += 1
        rep["states"] += 1
        rep["transitions"] += 1
        rep["distinct_nontrivial"] += 1
        hist(rep, "nofeature/%s/%s:%s" % (c["kind"], c["expect"], r["status"]))
        if c["expect"] == "reject" and r["status"] == "accepted":
            violate(rep, "C05", c, "bypass-compiles", "rejected (crate feature new_unchecked is off)", "compiles")
        if c["expect"] == "accept" and r["status"] == "rejected":
            rep["machinery_errors"].append("control case failed without features: %s" % c["text"][:100])
    mx = mx_bind(doc, "all")
    rep["traces_validated_against_impl"] += check_binding(doc, res, mx, rep)
    mxrep = run_mx("c05", tier)
    merge(rep, mxrep)
    rep["rule"] = "(a) attack catalogue: for each target declaration (all families, visibilities, with/without new_unchecked flag and feature) every bypass program and every legitimate control twin is compiled; at the fixpoint every attack must have been rejected and every control must still compile. (b) structural invariant: every expansion of the MX declaration space is parsed with syn and every item is checked (one private module, inherited field visibility, construction sites only behind the guards, no &mut access to the inner value, new_unchecked only as unsafe fn with flag and feature). non-trivial = attack programs + expansions inspected"
    return vlib.finish("C05", tier, rep, t0, CC_ASSUMPTIONS)


def run_c02(tier, t0):
    rep = new_report("C02", tier)
    out, doc = gen("C02", tier)
    res, rounds = fixpoint(out, doc, "check")
    # survivors: build + run probes (a later pass may still reject some: continue the fixpoint in build mode)
    res_b, rounds_b = fixpoint(out, doc, "build")
    for cid, r in res_b.items():
        if r["status"] == "rejected" and res[cid]["status"] == "accepted":
            res[cid] = r
    obs = run_probes(out, doc, res)
    judge_verdicts("C02", doc, res, rep, reject_cls="accepted-but-cannot-honour")
    accepted_by_class = {}
    for c in doc["cases"]:
        r = res[c["id"]]
        if r["status"] != "accepted" or not c["probes"]:
            continue
        accepted_by_class[c["class"]] = accepted_by_class.get(c["class"], 0) + 1
        o = obs.get(c["id"], {})
        bad = None
        for k, exp in enumerate(c["probes"]):
            rep["evaluations"] += 1
            rep["transitions"] += 1
            inp, want = exp.split(" => ", 1)
            got = o.get(k)
            if want == "Err(custom)":
                ok = got is not None and got.startswith("Err(")
            else:
                ok = got == want
            if not ok and bad is None:
                bad = (inp, want, got)
        rep["traces_validated_against_impl"] += len(c["probes"])
        if bad:
            violate(rep, "C02", c, "rule-not-enforced-as-written:%s" % c["class"], "input %s => %s" % (bad[0], bad[1]), "input %s => %s" % (bad[0], bad[2]), entry="try_new")
    rep["histogram"]["accepted-with-probes-by-class"] = accepted_by_class
    for must in ("spelling:Lit", "spelling:Const", "layout"):
        if accepted_by_class.get(must, 0) == 0:
            rep["machinery_errors"].append("vacuous: no accepted case of class %s" % must)
    mx = mx_bind(doc, "all")
    rep["traces_validated_against_impl"] += check_binding(doc, res, mx, rep)
    for c in doc["cases"][:: max(1, len(doc["cases"]) // 6)][:6]:
        rep["samples"].append({"case": c["text"][:200], "class": c["class"], "rustc": res[c["id"]]["status"], "probes": c["probes"][:3], "observed": [obs.get(c["id"], {}).get(k) for k in range(min(3, len(c["probes"])))]})
    rep["rule"] = "every bound spelling (22 forms x validator kinds x value positions x types) and attribute layout (block orders, trailing commas, flag positions, repeated blocks) is compiled by the real macro; a rejected declaration is fine; an accepted one is executed on the neighbourhood of the denoted bound and every input must get exactly the verdict REF computes from the DENOTED value of every written rule; non-trivial = rejected or either-expectation cases + probes run"
    rep["notes"].append("fixpoint rounds: check %d, build %d" % (rounds, rounds_b))
    return vlib.finish("C02", tier, rep, t0, CC_ASSUMPTIONS)


def run_c15(tier, t0):
    rep = new_report("C15", tier)
    out, doc = gen("C15", tier)
    outs, docs = gen("C15S", tier)
    outp, docp = gen("C15P", tier)
    mode = "check" if tier == "quick" else "build"
    res, r1 = fixpoint(out, doc, mode)
    ress, r2 = fixpoint(outs, docs, mode)
    # the same cases in a crate graph that does not link std at all (no_std port of `arbitrary`): with std
    # anywhere in the graph, std-only inherent methods (f64::floor, mul_add, ...) would resolve even in a
    # #![no_std] crate
    resp, r3 = fixpoint(outp, docp, mode)
    # ... and with cfg(test) on (the expansion contains a #[cfg(test)] module)
    rest, r4 = fixpoint(out, doc, "test")
    for c, cs, cp in zip(doc["cases"], docs["cases"], docp["cases"]):
        a, b = res[c["id"]], ress[cs["id"]]
        for other, what in ((resp[cp["id"]], "std-free crate graph"), (rest[c["id"]], "test profile (cfg(test))")):
            rep["evaluations"] += 1
            rep["transitions"] += 1
            if a["status"] == "accepted" and other["status"] == "rejected":
                hist(rep, "no_std:rejected-only-in:%s" % what)
                a = {"status": "rejected", "round": other["round"], "errors": [(e[0], "[%s] %s" % (what, e[1]), e[2]) for e in other["errors"]]}
        rep["evaluations"] += 2
        rep["transitions"] += 2
        rep["states"] += 1
        hist(rep, "no_std:%s/std:%s" % (a["status"], b["status"]))
        if c["kind"] == "control":
            if a["status"] == "rejected" or b["status"] == "rejected":
                rep["machinery_errors"].append("helper module does not compile: %s" % (a["errors"] or b["errors"])[:1])
            continue
        if b["status"] == "accepted":
            rep["distinct_nontrivial"] += 1
        if b["status"] == "accepted" and a["status"] == "rejected":
            e = a["errors"][0]
            violate(rep, "C15", c, "not-no_std-clean", "compiles inside #![no_std] (it compiles in the std twin crate)", "%s %s" % (e[0], e[1][:200]))
        elif b["status"] == "rejected" and c["expect"] == "accept":
            rep["machinery_errors"].append("declaration expected to be well-formed fails in the std twin too: %s: %s" % (c["text"][:140], b["errors"][0][1][:140]))
        elif b["status"] == "accepted" and c["expect"] == "reject":
            rep["machinery_errors"].append("declaration expected to be refused compiles: %s" % c["text"][:140])
    rep["traces_validated_against_impl"] += len(doc["cases"])
    for c in doc["cases"][1:: max(1, len(doc["cases"]) // 5)][:5]:
        rep["samples"].append({"decl": c["text"][:220], "no_std": res[c["id"]]["status"], "std_twin": ress[c["id"]]["status"]})
    mxrep = run_mx("c15", tier)
    merge(rep, mxrep)
    rep["rule"] = "CC: every integer/float/other declaration of the bounded grammar x derive sets (each single trait, pairs with FromStr/serde/Arbitrary/Display/TryFrom, the maximal set) x {plain, validators, sanitizer+predicate, custom error, const_fn, default, generics, lifetimes} is compiled in a #![no_std] crate against nutype with default features off (+serde, +arbitrary) - once with the real `arbitrary` crate, once in a crate graph that links no std at all (no_std port of arbitrary 1.4.2, harness/shims/arbitrary_nostd), once more with cfg(test) on - and in a std twin; compiles in the twin => must compile in all three no_std builds. MX: token scan of every expansion of the no-std shim (and the two pre-1.81 shims) for std paths and alloc-only names outside user tokens. non-trivial = declarations that compile in the std twin"
    rep["notes"].append("fixpoint rounds: std-free graph %d, test profile %d" % (r3, r4))
    rep["notes"].append("fixpoint rounds: no_std %d, std twin %d; host target (with #![no_std] the name `std` is simply not in scope)" % (r1, r2))
    return vlib.finish("C15", tier, rep, t0, CC_ASSUMPTIONS)


def run_c09x(tier, rep):
    """C09, compile-or-behave part: declarations whose valid set the macro cannot know (custom sanitizer next to
    validators, predicate, regex, custom validation). Rejected -> fine. Accepted -> arbitrary() must be total and
    yield only valid values on every probe input."""
    with vlib.Lock():
        out, doc = gen("C09X", tier, 4)
        res, r1 = fixpoint(out, doc, "check")
        res_b, r2 = fixpoint(out, doc, "build")
        for cid, r in res_b.items():
            if r["status"] == "rejected" and res[cid]["status"] == "accepted":
                res[cid] = r
        obs = run_probes(out, doc, res)
    for c in doc["cases"]:
        r = res[c["id"]]
        rep["evaluations"] += 1
        rep["states"] += 1
        hist(rep, "compile-or-behave:%s:%s" % (c["kind"], r["status"]))
        if r["status"] == "rejected":
            if c["kind"] == "control":
                rep["machinery_errors"].append("C09X control does not compile: %s: %s" % (c["text"][:120], r["errors"][0][1][:160]))
            continue
        o = obs.get(c["id"], {})
        bad = None
        for k, exp in enumerate(c["probes"]):
            rep["evaluations"] += 1
            rep["transitions"] += 1
            inp, want = exp.split(" => ", 1)
            got = o.get(k)
            if got != want and bad is None:
                bad = (inp, got)
        rep["traces_validated_against_impl"] += len(c["probes"])
        if bad:
            cls = "panic:accepted-declaration" if bad[1] == "PANIC" else "invalid-value-produced"
            rep["violation_count"] += 1
            rep["violations"].append({"property": "C09", "subject": -1, "decl": c["text"], "shape": "compile-or-behave:%s" % c["class"], "entry": "Arbitrary", "input": bad[0], "expected": "declaration refused at compile time, or arbitrary() total and valid", "observed": "declaration accepted; arbitrary() on %s -> %s" % bad, "class": cls})
    rep["notes"].append("compile-or-behave catalogue: %d declarations, fixpoint rounds %d/%d" % (len(doc["cases"]), r1, r2))


def run_c03x(tier, rep):
    """C03, compile-or-behave part (see ntgen::cc::c03x_cases): `derive(Default)` without a `default =` attribute is
    either refused or yields exactly what the constructor makes of the inner type's default."""
    with vlib.Lock():
        out, doc = gen("C03X", tier, 1)
        res, r1 = fixpoint(out, doc, "check")
        res_b, r2 = fixpoint(out, doc, "build")
        for cid, r in res_b.items():
            if r["status"] == "rejected" and res[cid]["status"] == "accepted":
                res[cid] = r
        obs = run_probes(out, doc, res)
    for c in doc["cases"]:
        r = res[c["id"]]
        rep["evaluations"] += 1
        rep["states"] += 1
        hist(rep, "compile-or-behave:%s:%s" % (c["kind"], r["status"]))
        if r["status"] == "rejected":
            if c["kind"] == "control":
                rep["machinery_errors"].append("C03X control does not compile: %s: %s" % (c["text"][:120], r["errors"][0][1][:160]))
            continue
        o = obs.get(c["id"], {})
        for k, exp in enumerate(c["probes"]):
            rep["evaluations"] += 1
            rep["transitions"] += 1
            rep["traces_validated_against_impl"] += 1
            inp, want = exp.split(" => ", 1)
            got = o.get(k)
            if got != want:
                rep["violation_count"] += 1
                rep["violations"].append({"property": "C03", "subject": -1, "decl": c["text"], "shape": "compile-or-behave:%s" % c["class"], "entry": "Default::default", "input": inp, "expected": "declaration refused at compile time, or default() == constructor(inner default) (panic iff Err)", "observed": "declaration accepted; %s" % got, "class": "default-differs"})
    rep["notes"].append("compile-or-behave catalogue (Default without `default =`): %d declarations, fixpoint rounds %d/%d" % (len(doc["cases"]), r1, r2))


def run_c14x(tier, rep):
    """C14, compile-or-behave part (see ntgen::cc::c14x_cases): an accepted integer declaration whose range the
    macro cannot derive from the bounds must still have a generator that reaches every obtainable value."""
    with vlib.Lock():
        out, doc = gen("C14X", tier, 2)
        res, r1 = fixpoint(out, doc, "check")
        res_b, r2 = fixpoint(out, doc, "build")
        for cid, r in res_b.items():
            if r["status"] == "rejected" and res[cid]["status"] == "accepted":
                res[cid] = r
        obs = run_probes(out, doc, res)
    for c in doc["cases"]:
        r = res[c["id"]]
        rep["evaluations"] += 1
        rep["states"] += 1
        hist(rep, "compile-or-behave:%s:%s" % (c["kind"], r["status"]))
        if r["status"] == "rejected":
            if c["kind"] == "control":
                rep["machinery_errors"].append("C14X control does not compile: %s: %s" % (c["text"][:120], r["errors"][0][1][:160]))
            continue
        o = obs.get(c["id"], {})
        for k, exp in enumerate(c["probes"]):
            rep["evaluations"] += 65793
            rep["transitions"] += 65793
            inp, want = exp.split(" => ", 1)
            got = o.get(k)
            rep["traces_validated_against_impl"] += 1
            if got != want:
                rep["violation_count"] += 1
                rep["violations"].append({"property": "C14", "subject": -1, "decl": c["text"], "shape": "compile-or-behave:%s" % c["class"], "entry": "Arbitrary (exhaustive byte inputs)", "input": inp, "expected": "declaration refused at compile time, or produced set covers every value the constructor can return", "observed": "declaration accepted; %s" % got, "class": "incomplete-range"})
    rep["notes"].append("compile-or-behave catalogue: %d declarations (all 65 793 byte strings of length <= 2 each), fixpoint rounds %d/%d" % (len(doc["cases"]), r1, r2))


CC_ASSUMPTIONS = [
    "rustc 1.95 (x86_64 host) accept/reject verdicts; errors attributed to the enclosing case module by span and confirmed by the remove-and-rebuild fixpoint",
    "REF's admissibility predicate (ntcore::admit) encodes the property's reject classes; grey-zone declarations are `either`",
    "the in-process macro (library build with --cfg nutype_verif) is bound to the real proc macro by comparing verdicts and first messages on every CC case",
]


def setup():
    with vlib.Lock():
        for variant, n in (("C02", 16), ("C05", 16), ("C08", 16), ("C15", 16), ("C15S", 16), ("C05N", 1), ("C08T", 1), ("C09X", 4)):
            out, doc = gen(variant, "quick", n)
            # fetch + compile third-party dependencies once
            subprocess.run(["cargo", "check", "--offline", "-q"], cwd=out, env=vlib.env(), stdout=subprocess.DEVNULL, stderr=subprocess.DEVNULL)


def run(prop, tier, t0):
    with vlib.Lock():
        vlib.build_harness()
        if prop == "C08":
            return run_c08(tier, t0)
        if prop == "C05":
            return run_c05(tier, t0)
        if prop == "C02":
            return run_c02(tier, t0)
        if prop == "C15":
            return run_c15(tier, t0)
    raise Machinery("unknown CC property %s" % prop)


def replay(prop, v):
    """Compile verdicts are deterministic: re-run the check for the recorded tier and report whether the same
    case (same text, same failure class) is reported again."""
    import subprocess as sp
    tier = v.get("tier", "quick")
    print("REPLAY property=%s class=%s case: %s" % (prop, v.get("class"), v.get("decl", "")[:300]))
    p = sp.run([os.path.join(vlib.VERIF, "check"), prop, "--tier", tier], cwd=vlib.VERIF, stdout=sp.PIPE, stderr=sp.PIPE, text=True)
    hits = 0
    for path in re.findall(r"VIOLATION property=%s replay=(\S+)" % prop, p.stdout):
        try:
            with open(path) as f:
                w = json.load(f)
        except Exception:
            continue
        if w.get("class") == v.get("class") and w.get("decl") == v.get("decl"):
            hits += 1
    print("REPLAY reproduced=%s (check exit %d)" % (hits > 0, p.returncode))
    return 1 if hits > 0 else 0
