"""compile-verdict explorer (under construction)"""
import vlib

def setup():
    pass

def run(prop, tier, t0):
    raise vlib.Machinery("CC engine not built yet")

def replay(prop, v):
    raise vlib.Machinery("CC engine not built yet")
