#!/usr/bin/env python3
"""seedtable.py <series letters>: prints the markdown table (id | change | run 1 | run 2) for DESIGN.md section 14 from
seeded/<id>/{agent_meta.json,seedtest_run1.json,seedtest.json}."""
import glob, json, os, sys
series = sys.argv[1]
def caught(p):
    if not os.path.exists(p):
        return None
    d = json.load(open(p))
    c = sorted(k for k, v in d.items() if k != "baseline" and v.get("exit") == 1)
    m = sorted(k for k, v in d.items() if k != "baseline" and v.get("exit") == 2)
    s = " ".join(c) if c else "**missed**"
    if m:
        s += " (exit 2: %s)" % " ".join(m)
    return s
print("| id | change (needs) | run 1 | run 2 |\n|---|---|---|---|")
for d in sorted(glob.glob("/verif/seeded/S-C*-[%s]" % series), key=lambda x: (x[-1], x)):
    am = json.load(open(os.path.join(d, "agent_meta.json")))
    r1 = caught(os.path.join(d, "seedtest_run1.json"))
    r2 = caught(os.path.join(d, "seedtest.json"))
    if r1 is None:
        r1, r2 = r2, "-"
    summ = am["summary"].replace("|", "\\|").replace("\n", " ")
    if len(summ) > 330:
        summ = summ[:327] + "..."
    print("| %s | %s | %s | %s |" % (os.path.basename(d), summ, r1, r2))
