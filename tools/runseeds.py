#!/usr/bin/env python3
"""runseeds.py <series letters, e.g. def> [--keep-first]: runs every seeded/S-Cxx-<series> patch through
tools/seedtest.py (baseline + all 16 quick checks; /repo's working tree is patched and reverted by seedtest).
The result goes to seeded/<id>/seedtest.json; with --keep-first an existing seedtest.json is first moved to
seedtest_run1.json (so the first run on the machinery as it was is kept)."""
import glob, json, os, subprocess, sys
series = sys.argv[1]
keep = "--keep-first" in sys.argv
for d in sorted(glob.glob("/verif/seeded/S-C*-[%s]" % series)):
    out = os.path.join(d, "seedtest.json")
    if os.path.exists(out) and keep and not os.path.exists(os.path.join(d, "seedtest_run1.json")):
        os.rename(out, os.path.join(d, "seedtest_run1.json"))
    env = dict(os.environ, SEEDTEST_OUT=out)
    r = subprocess.run(["python3", "/verif/tools/seedtest.py", os.path.join(d, "patch.diff"), "--baseline"], env=env, capture_output=True, text=True)
    last = [l for l in r.stdout.splitlines() if l.startswith("RESULT")]
    base = [l for l in r.stdout.splitlines() if l.startswith("baseline")]
    print(os.path.basename(d), base[:1], last[-1] if last else r.stdout[-300:], flush=True)
