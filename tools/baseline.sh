#!/bin/bash
# Runs the repository's pinned baseline (211 tests) with the verification guard OFF.
# Prints the nextest summary; exit 0 iff 211 passed and none failed.
cd /repo || exit 2
unset RUSTFLAGS
export CARGO_NET_OFFLINE=true
out=$(cargo nextest run --workspace --no-fail-fast --tool-config-file pb:/w/lib/nextest.toml --profile pb --test-threads 8 --offline 2>&1)
rc=$?
echo "$out" | tail -4
echo "$out" | grep -q "211 tests run: 211 passed" && [ $rc -eq 0 ] && exit 0
exit 1
