#!/usr/bin/env python3
"""runmutants.py [pattern] : for every /verif/mutants/<pattern>*.diff apply it to /repo (via seedtest.py), run the baseline and
the relevant quick checks, and collect the outcome in /verif/mutants/RESULTS.json."""
import glob, json, os, subprocess, sys
pat = sys.argv[1] if len(sys.argv) > 1 else ""
res_path = "/verif/mutants/RESULTS.json"
results = json.load(open(res_path)) if os.path.exists(res_path) else {}
REL = {"sys": ["C08", "C05", "C12", "C03", "C02"], "revert": None}
for f in sorted(glob.glob("/verif/mutants/%s*.diff" % pat)):
    name = os.path.basename(f)
    kind = name.split("_")[0]
    props = REL.get(kind)
    if kind == "revert":
        # the property the fix was made for
        owner = {"string_length_error": ["C16"], "parenthesise": ["C14", "C09"], "float_Arbitrary": ["C09"], "string_Arbitrary": ["C09"], "refuse_integer_Arbitrary": ["C09", "C08"],
                 "refuse_equal_bounds": ["C08"], "generated_serde": ["C08"], "derive_Into": ["C08"], "derive_Arbitrary": ["C08"], "a_bound_written": ["C02"], "refuse_a_repeated": ["C02"]}
        props = next((v for k, v in owner.items() if k in name), ["C02", "C08", "C09", "C14", "C16"])
    if kind == "own":
        owner = name.split("_")[1]
        props = sorted(set([owner, "C01", "C05"]))
    if name in results and results[name].get("baseline_exit") is not None and not os.environ.get("RERUN"):
        print(name, "already done", results[name]["caught_by"])
        continue
    out = "/tmp/mut_%s.json" % name
    env = dict(os.environ, SEEDTEST_OUT=out)
    p = subprocess.run(["python3", "/verif/tools/seedtest.py", f, "--baseline"] + props, capture_output=True, text=True, env=env)
    line = [l for l in p.stdout.splitlines() if l.startswith("RESULT")]
    r = json.load(open(out)) if os.path.exists(out) else {}
    results[name] = {"baseline_exit": r.get("baseline", {}).get("exit"), "caught_by": [k for k, v in r.items() if k != "baseline" and v.get("exit") == 1], "machinery": [k for k, v in r.items() if k != "baseline" and v.get("exit") == 2], "checks": props, "note": ("patch did not apply" if "does not apply" in p.stdout else "")}
    print(name, results[name])
    json.dump(results, open(res_path, "w"), indent=1)
