#!/usr/bin/env python3
"""mk_arbitrary_nostd.py <out-dir>: derive a `#![no_std]` port of the cached `arbitrary` 1.4.2 sources.

Why: the real `arbitrary` crate links `std`, and as soon as ANY crate of the graph links std, std-only
inherent methods (`f64::floor`, `f64::mul_add`, `str::to_lowercase`, ...) resolve even inside a `#![no_std]`
crate. The C15 compile check therefore also builds its subjects against this port, whose crate graph is
std-free, so that such a method in generated code is a compile error. The port keeps the real
`Unstructured`, `Arbitrary`, `Error`, `size_hint` and the core/alloc `foreign` impls verbatim; only
`foreign/std`, the tests and the derive helper (thread-local recursion guard) are dropped and `std::` paths
are renamed to `core::` / `::alloc::`."""
import glob, os, re, shutil, sys
out = sys.argv[1]
src = sorted(glob.glob(os.path.expanduser("~/.cargo/registry/src/*/arbitrary-1.4.2")))
if not src:
    sys.exit("arbitrary-1.4.2 not in the cargo registry cache")
src = src[-1]
shutil.rmtree(out, ignore_errors=True)
os.makedirs(out)
shutil.copytree(os.path.join(src, "src"), os.path.join(out, "src"))
for f in ("LICENSE-MIT", "LICENSE-APACHE"):
    if os.path.exists(os.path.join(src, f)):
        shutil.copy(os.path.join(src, f), out)
shutil.rmtree(os.path.join(out, "src/foreign/std"))
os.remove(os.path.join(out, "src/tests.rs"))
for path in glob.glob(os.path.join(out, "src/**/*.rs"), recursive=True):
    s = open(path).read()
    rel = os.path.relpath(path, os.path.join(out, "src"))
    if rel.startswith("foreign/alloc/"):
        s = re.sub(r"(?<![A-Za-z0-9_:])std::", "::alloc::", s)
        # std's prelude names that no_std lacks
        for name, ipath in (("String", "string::String"), ("Vec", "vec::Vec"), ("Box", "boxed::Box"), ("ToOwned", "borrow::ToOwned")):
            used = re.search(r"(?<![A-Za-z0-9_])%s(?![A-Za-z0-9_])" % name, s)
            imported = re.search(r"(::|\{|, )%s[,}; \n]" % name, s)
            if used and not imported:
                s += "\n#[allow(unused_imports)]\nuse ::alloc::%s;\n" % ipath
    else:
        s = re.sub(r"(?<![A-Za-z0-9_:])std::", "core::", s)
    if rel == "foreign/mod.rs":
        s = s.replace("mod std;\n", "")
    if rel == "lib.rs":
        s = s.replace("#[cfg(test)]\nmod tests;\n", "")
        s = re.sub(r"#!\[deny\([a-z_0-9]+\)\]\n", "", s)
        s = s.replace("mod error;\n", "extern crate alloc;\nmod error;\n", 1)
        # inner attributes go after the crate-level doc comment
        m = re.search(r"^(?!//)", s, re.M)
        s = s[:m.start()] + "#![no_std]\n#![allow(unused, missing_docs)]\n" + s[m.start():]
        # the derive helper uses a thread-local: not part of the API generated nutype code uses
        i = s.find("#[doc(hidden)]\npub mod details")
        if i < 0:
            i = s.find("pub mod details")
        if i >= 0:
            s = s[:i]
        # doc tests refer to std: strip the compile-fail test carrier
        j = s.find("pub struct CompileFailTests;")
        if j >= 0:
            k = s.rfind("\n///", 0, j)
            # remove the doc block preceding it
            start = s.rfind("\n\n", 0, j)
            s = s[:start] + "\n"
    open(path, "w").write(s)
open(os.path.join(out, "Cargo.toml"), "w").write('''[package]
name = "arbitrary"
version = "1.4.2"
edition = "2021"
description = "no_std port of arbitrary 1.4.2 derived by /verif/tools/mk_arbitrary_nostd.py (verification harness only)"
license = "MIT OR Apache-2.0"

[lib]
name = "arbitrary"
path = "src/lib.rs"
doctest = false

[workspace]
''')
print("wrote", out)
