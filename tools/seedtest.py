#!/usr/bin/env python3
"""seedtest.py <patch.diff> [C01 C02 ...] [--baseline]

Applies a property-breaking patch to /repo's working tree (never committed), optionally runs the
repository baseline, runs the listed quick checks (default: all), prints which of them report a
VIOLATION, and ALWAYS reverts the working tree afterwards (`git -C /repo checkout -- .`)."""
import json
import os
import subprocess
import sys
import time

ALL = ["C%02d" % i for i in range(1, 17)]


def main():
    args = sys.argv[1:]
    if not args:
        print(__doc__)
        return 2
    patch = os.path.abspath(args[0])
    baseline = "--baseline" in args
    props = [a for a in args[1:] if a.startswith("C")] or ALL
    st = subprocess.run(["git", "-C", "/repo", "status", "--porcelain", "--untracked-files=no"], capture_output=True, text=True).stdout.strip()
    if st:
        print("refusing: /repo working tree is not clean:\n" + st)
        return 2
    r = subprocess.run(["git", "-C", "/repo", "apply", patch], capture_output=True, text=True)
    if r.returncode != 0:
        print("patch does not apply:", r.stderr[-2000:])
        subprocess.run(["git", "-C", "/repo", "reset", "-q"])
        subprocess.run(["git", "-C", "/repo", "checkout", "--", "."])
        return 2
    results = {}
    try:
        if baseline:
            b = subprocess.run(["/verif/tools/baseline.sh"], capture_output=True, text=True)
            results["baseline"] = {"exit": b.returncode, "tail": b.stdout.strip().splitlines()[-1:]}
            print("baseline exit=%d %s" % (b.returncode, results["baseline"]["tail"]))
        for p in props:
            t0 = time.time()
            c = subprocess.run(["/verif/check", p, "--tier", "quick"], cwd="/verif", capture_output=True, text=True)
            vio = [l for l in c.stdout.splitlines() if l.startswith("VIOLATION")]
            detail = [l for l in c.stderr.splitlines() if l.startswith("  ")][:3]
            results[p] = {"exit": c.returncode, "violations": len(vio), "wall_s": round(time.time() - t0, 1), "detail": detail, "stderr_tail": c.stderr[-300:] if c.returncode == 2 else ""}
            print("%s exit=%d violations=%d (%.0fs) %s" % (p, c.returncode, len(vio), time.time() - t0, (detail[0][:200] if detail else (c.stderr[-200:].replace("\n", " ") if c.returncode == 2 else ""))))
    finally:
        subprocess.run(["git", "-C", "/repo", "reset", "-q"])
        subprocess.run(["git", "-C", "/repo", "checkout", "--", "."])
        subprocess.run(["git", "-C", "/repo", "clean", "-fdq", "--", "nutype_macros", "nutype"])
        st = subprocess.run(["git", "-C", "/repo", "status", "--porcelain", "--untracked-files=no"], capture_output=True, text=True).stdout.strip()
        if st:
            print("WARNING: /repo not clean after revert:\n" + st)
    print("RESULT " + json.dumps({"patch": patch, "caught_by": [p for p in props if results.get(p, {}).get("exit") == 1], "machinery": [p for p in props if results.get(p, {}).get("exit") == 2]}))
    out = os.environ.get("SEEDTEST_OUT")
    if out:
        with open(out, "w") as f:
            json.dump(results, f, indent=1)
    return 0


if __name__ == "__main__":
    sys.exit(main())
