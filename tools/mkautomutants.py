#!/usr/bin/env python3
"""Mechanical mutation operators over nutype_macros/src (HEAD): one small diff per (file, line, operator).
Writes /verif/mutants/auto_<nnn>_<file>_<line>_<op>.diff. Nothing is applied.

Operators: relational boundary swaps, negation removal, off-by-one on literal 1, a few domain-specific
replacements (trim -> trim_start, to_lowercase -> to_ascii_lowercase, chars().count() -> len(), is_finite -> !is_nan,
try_new(..) -> direct construction is NOT attempted here – see own_*.diff)."""
import difflib
import os
import re
import subprocess
import sys

REPO = "/repo"
OUT = "/verif/mutants"
ROOT = "nutype_macros/src"

OPS = [
    ("ge2gt", re.compile(r"(?<![<>=!-])>=(?!=)"), ">"),
    ("gt2ge", re.compile(r"(?<![<>=!-])(?<!-)>(?![=>])"), ">="),
    ("le2lt", re.compile(r"(?<![<>=!])<=(?!=)"), "<"),
    ("lt2le", re.compile(r"(?<![<>=!])<(?![=<])"), "<="),
    ("eq2ne", re.compile(r"(?<![<>=!])==(?!=)"), "!="),
    ("ne2eq", re.compile(r"!="), "=="),
    ("not", re.compile(r"if !(?=[\(a-zA-Z_#])"), "if "),
    ("plus1", re.compile(r"\+ 1\b"), "+ 2"),
    ("minus1", re.compile(r"- 1\b"), "- 2"),
    ("and2or", re.compile(r" && "), " || "),
    ("or2and", re.compile(r" \|\| "), " && "),
    ("trim", re.compile(r"\.trim\(\)"), ".trim_start()"),
    ("lower", re.compile(r"\.to_lowercase\(\)"), ".to_ascii_lowercase()"),
    ("upper", re.compile(r"\.to_uppercase\(\)"), ".to_ascii_uppercase()"),
    ("count", re.compile(r"\.chars\(\)\.count\(\)"), ".len()"),
    ("finite", re.compile(r"!val\.is_finite\(\)"), "val.is_nan()"),
    ("isempty", re.compile(r"val\.is_empty\(\)"), "val.trim().is_empty()"),
    ("some2none", re.compile(r"\bis_some\(\)"), "is_none()"),
    ("true2false", re.compile(r"\btrue\b"), "false"),
    ("false2true", re.compile(r"\bfalse\b"), "true"),
]

SKIP_LINE = re.compile(r"^\s*(//|///|\*|#\[|use |mod |pub mod |let msg|\"|format!\(\"|concat!|write!\(f, \")")


def files():
    out = subprocess.run(["git", "-C", REPO, "ls-tree", "-r", "--name-only", "HEAD", ROOT], capture_output=True, text=True).stdout.split()
    keep = []
    for f in out:
        if not f.endswith(".rs"):
            continue
        if "/utils/" in f or f.endswith("/error.rs") and "/gen/" in f and "common" not in f:
            # per-family error.rs = message texts (C16 has own mutants); keep common/gen/error.rs
            pass
        keep.append(f)
    return keep


def head(path):
    return subprocess.run(["git", "-C", REPO, "show", "HEAD:" + path], capture_output=True, text=True).stdout


def in_generic_context(line, m):
    # skip generics / turbofish / paths / arrows / closures where < > are not comparisons
    s = line
    a, b = m.start(), m.end()
    around = s[max(0, a - 12):b + 12]
    if re.search(r"(->|=>|::<|<[A-Za-z_&'\[(]|[A-Za-z_\]\)>]>|Option<|Vec<|Result<|HashSet<|Box<|impl<|fn \w+<)", around):
        return True
    return False


def main():
    limit = int(sys.argv[1]) if len(sys.argv) > 1 else 100000
    os.makedirs(OUT, exist_ok=True)
    for f in os.listdir(OUT):
        if f.startswith("auto_"):
            os.remove(os.path.join(OUT, f))
    n = 0
    for path in files():
        src = head(path)
        lines = src.splitlines(True)
        for li, line in enumerate(lines):
            if SKIP_LINE.match(line):
                continue
            for name, rx, repl in OPS:
                for m in rx.finditer(line):
                    if name in ("gt2ge", "lt2le", "ge2gt", "le2lt") and in_generic_context(line, m):
                        continue
                    if name in ("true2false", "false2true") and ("is_inclusive" not in line and "=> " not in line and "return" not in line and "const " not in line):
                        continue
                    new = line[:m.start()] + repl + line[m.end():]
                    if new == line:
                        continue
                    mut = lines[:li] + [new] + lines[li + 1:]
                    d = "".join(difflib.unified_diff(lines, mut, "a/" + path, "b/" + path))
                    n += 1
                    slug = path.replace(ROOT + "/", "").replace("/", "-").replace(".rs", "")
                    with open(os.path.join(OUT, "auto_%03d_%s_L%d_%s.diff" % (n, slug, li + 1, name)), "w") as fh:
                        fh.write(d)
                    if n >= limit:
                        print("wrote", n)
                        return
    print("wrote", n)


if __name__ == "__main__":
    main()
